// Package vexp is the choice-tree explorer: depth-first enumeration of all executions of a
// body whose every non-deterministic decision comes from Choose, with prefix replay,
// optional deviation (preemption) bounding, optional state-key pruning and sharding.
package vexp

import (
	"fmt"

	"verif/vsched"
)

type Point struct {
	N      int
	Costly bool // choosing != 0 here is a deviation (preemption / non-default pool answer)
	Kind   string
	Chosen int
	Desc   string
}

// chooser replays a prefix, then answers 0.
type chooser struct {
	prefix []int
	expect []Point // what the parent execution saw at the prefix points (determinism check)
	trace  []Point
	e      *Explorer
	fresh  bool
}

type divergence struct{ msg string }

func (c *chooser) Choose(n int, preempt bool, kind string) int {
	i := len(c.trace)
	ch := 0
	costly := (kind == "sched" && preempt) || kind == "pool" || c.e.AllCostly
	if i < len(c.prefix) {
		ch = c.prefix[i]
		if i < len(c.expect) && (c.expect[i].N != n || c.expect[i].Kind != kind) {
			panic(divergence{fmt.Sprintf("replay diverged at point %d: the parent execution saw %d alternatives (%s) %s, the replay sees %d (%s) %s", i, c.expect[i].N, c.expect[i].Kind, c.expect[i].Desc, n, kind, vsched.LastEnabled)})
		}
		if ch >= n {
			panic(divergence{fmt.Sprintf("replay diverged at point %d: choice %d of %d (%s)", i, ch, n, kind)})
		}
	} else if c.e.StateKey != nil {
		// beyond the replayed prefix: prune states already expanded
		k := c.e.StateKey()
		// A "pool"/"select" question is asked in the middle of an operation, right after a
		// "sched" question in the very same state: the kind of question is part of the key,
		// otherwise the second question would look like an already expanded state.
		for _, ch := range kind {
			k = (k ^ uint64(ch)) * 1099511628211
		}
		if c.e.visited[k] {
			panic(vsched.Abort{Reason: "state already expanded"})
		}
		c.e.visited[k] = true
		c.e.Stats.States++
		if c.e.Debug {
			if c.e.FirstReach == nil {
				c.e.FirstReach = map[uint64][]int{}
			}
			p := make([]int, len(c.trace))
			for j, pt := range c.trace {
				p[j] = pt.Chosen
			}
			c.e.FirstReach[k] = p
		}
	}
	c.trace = append(c.trace, Point{N: n, Costly: costly, Kind: kind, Chosen: ch, Desc: vsched.LastEnabled})
	return ch
}

type Stats struct {
	Executions  int64
	Pruned      int64
	Points      int64
	MaxPoints   int
	States      int64 // distinct state keys (when StateKey is set)
	Transitions int64
	Capped      bool
}

type Explorer struct {
	Bound int // maximum deviations per execution; <0 = unbounded
	// AllCostly: every non-default answer counts as a deviation (delay bounding), not only
	// preemptions and pool answers; keeps the search polynomial with many threads.
	AllCostly bool
	StateKey  func() uint64
	// Exec runs one execution under the chooser. It must be deterministic given the choices.
	Exec func(ch vsched.Chooser) (pruned bool)
	// Check judges the execution that just ran (not called for pruned ones).
	Check func(choices []int, trace []Point)
	// Shard/N: this process explores subtrees idx%N == Shard of the level-k frontier.
	Shard, N int
	MaxExec  int64
	Stop     func() bool
	Stats    Stats
	visited  map[uint64]bool
	expect   map[*int][]Point
	// Debug: remember which prefix first reached each key
	Debug      bool
	FirstReach map[uint64][]int
}

// Visited reports whether the key was seen by the search.
func (e *Explorer) Visited(k uint64) bool { return e.visited[k] }

func cost(trace []Point, upto int) int {
	c := 0
	for i := 0; i < upto && i < len(trace); i++ {
		if trace[i].Costly && trace[i].Chosen != 0 {
			c++
		}
	}
	return c
}

func (e *Explorer) run(prefix []int, count bool) (choices []int, trace []Point, pruned bool) {
	c := &chooser{prefix: prefix, e: e}
	if len(prefix) > 0 {
		c.expect = e.expect[&prefix[0]]
		delete(e.expect, &prefix[0])
	}
	pruned = e.Exec(c)
	if count {
		e.Stats.Executions++
		e.Stats.Points += int64(len(c.trace))
		if len(c.trace) > e.Stats.MaxPoints {
			e.Stats.MaxPoints = len(c.trace)
		}
		if pruned {
			e.Stats.Pruned++
		}
	}
	choices = make([]int, len(c.trace))
	for i, p := range c.trace {
		choices[i] = p.Chosen
	}
	if len(c.trace) < len(prefix) && !pruned {
		panic(divergence{fmt.Sprintf("replay ended after %d of %d prefix choices", len(c.trace), len(prefix))})
	}
	return choices, c.trace, pruned
}

func (e *Explorer) children(prefixLen int, choices []int, trace []Point) [][]int {
	var out [][]int
	for i := prefixLen; i < len(trace); i++ {
		base := cost(trace, i)
		for alt := 1; alt < trace[i].N; alt++ {
			c := base
			if trace[i].Costly {
				c++
			}
			if e.Bound >= 0 && c > e.Bound {
				continue
			}
			p := make([]int, i+1)
			copy(p, choices[:i])
			p[i] = alt
			out = append(out, p)
			e.expect[&p[0]] = trace[:i+1]
		}
	}
	return out
}

// Explore enumerates the whole tree (within the bound). With N > 1 the frontier is first
// expanded breadth-first to at least 8*N subtrees (every shard repeats that expansion,
// shard 0 alone accounts for it), then subtrees are dealt round-robin.
func (e *Explorer) Explore() {
	e.visited = map[uint64]bool{}
	e.expect = map[*int][]Point{}
	if e.N <= 1 || e.StateKey != nil {
		// state-pruned search is not sharded: the visited set must be global
		e.dfs([][]int{nil}, true)
		return
	}
	frontier := [][]int{nil}
	for len(frontier) > 0 && len(frontier) < 8*e.N {
		var next [][]int
		for _, p := range frontier {
			choices, trace, pruned := e.run(p, e.Shard == 0)
			if e.Shard == 0 && !pruned && e.Check != nil {
				e.Check(choices, trace)
			}
			if e.Shard == 0 {
				e.Stats.Transitions += int64(len(e.children(len(p), choices, trace)))
			}
			next = append(next, e.children(len(p), choices, trace)...)
		}
		frontier = next
		if e.Stop != nil && e.Stop() {
			e.Stats.Capped = true
			return
		}
	}
	var mine [][]int
	for i, p := range frontier {
		if i%e.N == e.Shard {
			mine = append(mine, p)
		}
	}
	e.dfs(mine, true)
}

func (e *Explorer) dfs(stack [][]int, count bool) {
	for len(stack) > 0 {
		if (e.MaxExec > 0 && e.Stats.Executions >= e.MaxExec) || (e.Stop != nil && e.Stop()) {
			e.Stats.Capped = true
			return
		}
		p := stack[len(stack)-1]
		stack = stack[:len(stack)-1]
		choices, trace, pruned := e.run(p, count)
		if !pruned && e.Check != nil {
			e.Check(choices, trace)
		}
		ch := e.children(len(p), choices, trace)
		e.Stats.Transitions += int64(len(ch))
		// push in reverse so the earliest branch point is explored first
		for i := len(ch) - 1; i >= 0; i-- {
			stack = append(stack, ch[i])
		}
	}
}

// IsDivergence reports whether a recovered panic value is a replay divergence.
func IsDivergence(r any) (string, bool) {
	d, ok := r.(divergence)
	return d.msg, ok
}
