package main

import (
	"bytes"
	"fmt"
	"strings"

	simdjson "github.com/minio/simdjson-go"

	"verif/ref"
)

var c08Lines = []string{
	`{}`, `[1]`, `{"a":"x\ny"}`, `["a b"]`, `[true]`,
	`[`, `1`, `{} {}`, `[1,`, `2]`, `}`, `[falsx]`,
	``, ` `, "\t", "\r",
	// a document spanning two lines through a string with a raw line feed in it
	`{"id":7,"note":"first half`, `second half"}`,
}

// forEachNDInput enumerates the NDJSON input space shared by C08 and C17.
func forEachNDInput(w *W, fn func(name string, text []byte)) {
	L := 4
	if w.Thorough() {
		L = 5
	}
	w.Note(fmt.Sprintf("line sequences: all sequences of <= %d lines over %d lines (5 valid documents, 7 invalid, 4 blank, 2 halves of a document split inside a string) x {LF, CRLF} x {final newline, none}", L, len(c08Lines)))
	var seq []int
	var last []byte
	emit := func() {
		w.res.States++
		if !w.Mine() {
			return
		}
		for eol := 0; eol < 2; eol++ {
			for fin := 0; fin < 2; fin++ {
				var b bytes.Buffer
				for i, li := range seq {
					b.WriteString(c08Lines[li])
					if i < len(seq)-1 || fin == 1 {
						if eol == 1 {
							b.WriteString("\r\n")
						} else {
							b.WriteByte('\n')
						}
					}
				}
				w.res.Transitions++
				fn("lines", b.Bytes())
				last = append(last[:0], b.Bytes()...)
			}
		}
	}
	var rec func(d int)
	rec = func(d int) {
		if w.Expired() || w.TooManyViolations() {
			return
		}
		if d > 0 {
			emit()
		}
		if d == L {
			return
		}
		for i := range c08Lines {
			seq = append(seq, i)
			rec(d + 1)
			seq = seq[:len(seq)-1]
		}
	}
	rec(0)
	w.Sample(fmt.Sprintf("line sample: %q", last))

	// boundary carriers: root boundaries on every index-buffer slot around the flush edges
	_, flushAt, _ := simdjson.VerifGeometry()
	suffix := "[\"q\\\"r\",\"\\\\\"]\n{\"a\":1}\n\n[true]\r\n \n{\"e\\\"k\":\"v\\\\\"}\n[[],{\"b\":\"q\"}]\n{}"
	ranges := [][2]int{{flushAt - 30, flushAt + 90}, {2*flushAt - 30, 2*flushAt + 180}, {16*flushAt + 600, 16*flushAt + 700}}
	if w.Thorough() {
		ranges[2] = [2]int{16 * flushAt, 16*flushAt + 1400}
	}
	w.Note(fmt.Sprintf("root-boundary carriers: n structural indexes of {} / [0] lines (n swept over %v) then a mixed suffix with blank, CRLF and white-space-only lines; plus 8 KiB threshold and a 30000-line input", ranges))
	for _, r := range ranges {
		for n := r[0]; n <= r[1]; n++ {
			w.res.States++
			if !w.Mine() || w.Expired() || w.TooManyViolations() {
				continue
			}
			for variant := 0; variant < 2; variant++ {
				var b bytes.Buffer
				rem := n
				// [0]\n = 4 structurals, {}\n = 3
				for rem%3 != 0 {
					b.WriteString("[0]\n")
					rem -= 4
				}
				for ; rem > 0; rem -= 3 {
					if variant == 0 {
						b.WriteString("{}\n")
					} else {
						b.WriteString("{}\r\n")
					}
				}
				b.WriteString(suffix)
				w.res.Transitions++
				fn("root-boundary", b.Bytes())
				last = append(last[:0], b.Bytes()...)
			}
		}
	}
	// all-structural inputs: nothing but {} / [] lines (every byte is a structural index in ND
	// mode), every total around one and two full index buffers, the input ending right there
	w.Note(fmt.Sprintf("all-structural inputs: one {\"a\":1} line then k lines of {} (and of []), LF, with and without a final newline, every k with %d..%d and %d..%d structural bytes", flushAt-60, flushAt+260, 2*flushAt-60, 2*flushAt+260))
	for _, base := range []int{flushAt, 2 * flushAt} {
		for k := (base - 60) / 3; k <= (base+260)/3; k++ {
			w.res.States++
			if !w.Mine() || w.Expired() || w.TooManyViolations() {
				continue
			}
			for _, line := range []string{"{}", "[]"} {
				for fin := 0; fin < 2; fin++ {
					var b bytes.Buffer
					b.WriteString("{\"a\":1}\n")
					for i := 0; i < k; i++ {
						b.WriteString(line)
						if i < k-1 || fin == 1 {
							b.WriteByte('\n')
						}
					}
					w.res.Transitions++
					fn("all-structural", b.Bytes())
				}
			}
		}
	}
	for total := 8192 - 70; total <= 8192+70; total++ {
		w.res.States++
		if !w.Mine() || w.Expired() {
			continue
		}
		var b bytes.Buffer
		for b.Len()+12 < total {
			b.WriteString("[0]\n")
		}
		for b.Len()+8 < total {
			b.WriteString(" ")
		}
		b.WriteString("\n{\"z\":9}")
		w.res.Transitions++
		fn("8k", b.Bytes())
	}
	// blank-line runs everywhere: every line is followed by a run of line ends, so wherever an index
	// buffer fills (always at a 64-byte block edge) a run is cut there; the first line is padded
	// so that every alignment of the runs to the blocks occurs
	seps := []string{"\n\n", "\r\n\r\n", "\n \n", "\n\n\n", "\n\t\r\n\n"}
	w.Note(fmt.Sprintf("blank-line runs at every alignment: [<0..63 blanks>0] then 450 (sync path) or 640 (async path) lines {\"k\":[d,true]}, every line followed by one of %d runs of line ends; whole, and with the last line cut short", len(seps)))
	for shift := 0; shift < 64; shift++ {
		w.res.States++
		if !w.Mine() || w.Expired() || w.TooManyViolations() {
			continue
		}
		for si, sep := range seps {
			for _, lines := range []int{450, 640} {
				if lines == 640 && (shift+si)%4 != 0 {
					continue
				}
				var b bytes.Buffer
				b.WriteString("[" + strings.Repeat(" ", shift) + "0]" + sep)
				for i := 0; i < lines; i++ {
					fmt.Fprintf(&b, "{\"k\":[%d,true]}%s", i%10, sep)
				}
				b.WriteString("[1]")
				w.res.Transitions++
				fn("blank-runs", b.Bytes())
				if si < 2 {
					w.res.Transitions++
					fn("blank-runs-cut", append([]byte(nil), b.Bytes()[:b.Len()-len(sep)-8]...))
				}
			}
		}
	}
	// flush edge x escape: the odd-backslash carry must survive the flush of an index buffer.
	// P dense structural bytes, then a line whose string has its escaped quote f bytes further.
	_, flushAt2, _ := simdjson.VerifGeometry()
	w.Note(fmt.Sprintf("flush x escape sweep: P = %d..%d structural bytes of {} lines, then a line [\"xx..\\\"q\",\"\\\\\"] with 0..70 filler bytes before the escaped quote, then {}; every combination", flushAt2-70, flushAt2+70))
	for P := flushAt2 - 70; P <= flushAt2+70; P++ {
		w.res.States++
		if !w.Mine() || w.Expired() {
			continue
		}
		var pre bytes.Buffer
		rem := P
		for rem%3 != 0 {
			pre.WriteString("[0]\n")
			rem -= 4
		}
		for ; rem > 0; rem -= 3 {
			pre.WriteString("{}\n")
		}
		for f := 0; f <= 70; f++ {
			var b bytes.Buffer
			b.Write(pre.Bytes())
			b.WriteString(`["`)
			b.WriteString(strings.Repeat("x", f))
			b.WriteString(`\"q","\\","\\\""]`)
			b.WriteString("\n{}")
			w.res.Transitions++
			fn("flush-x-escape", b.Bytes())
		}
	}
	// escapes x flush edge x alignment: many lines with escaped quotes / trailing escaped
	// backslashes (byte count and structural count drift apart), first line padded by 0..63
	// bytes so that every later byte visits every offset modulo 64 - in particular the
	// backslash of an escape becomes the last byte of the block at which an index buffer is
	// flushed
	w.Note("escape x flush x alignment: 151 and 401 lines of 3 shapes with escaped quotes / escaped backslashes before the closing quote, first line padded by 0..63 bytes")
	shapes := []string{`{"k":"a\"b","p":["c\"","\"d"]}`, `{"dir":"C:\\dir\\N\\","x":"\\"}`, `["\\\"","q\\\\\"r"]`}
	for _, lines := range []int{151, 401} {
		for si, shape := range shapes {
			for pad := 0; pad < 64; pad++ {
				w.res.States++
				if !w.Mine() || w.Expired() {
					continue
				}
				var b bytes.Buffer
				b.WriteString(`{"pad":"` + strings.Repeat("x", pad) + `"}` + "\n")
				for i := 0; i < lines; i++ {
					b.WriteString(shape)
					if (i+si)%7 == 0 {
						b.WriteString(" ")
					}
					b.WriteString("\n")
				}
				b.WriteString(`{"end":true}`)
				w.res.Transitions++
				fn("escape-x-flush-x-alignment", b.Bytes())
			}
		}
	}
	// alignment: each bad line behind a first line of every length, so that every byte of the
	// bad line (a quote directly followed by garbage, ...) falls on every offset modulo 64
	alignBad := []string{`["abc"1]`, `{"a":"b"c}`, `["x"]"y"`, `[1]x`, `["a\"]`, `{"k":"v"}}`}
	w.Note(fmt.Sprintf("alignment carriers: a first line {\"p\":\"xx..\"} of every length 8..140, then each of %d bad lines and one good line, LF and CRLF", len(alignBad)))
	for pad := 0; pad <= 132; pad++ {
		w.res.States++
		if !w.Mine() || w.Expired() {
			continue
		}
		for _, bad := range append(alignBad, `["ok"]`) {
			for eol := 0; eol < 2; eol++ {
				nl := "\n"
				if eol == 1 {
					nl = "\r\n"
				}
				w.res.Transitions++
				fn("alignment", []byte(`{"p":"`+strings.Repeat("x", pad)+`"}`+nl+bad+nl+`{"z":1}`))
			}
		}
	}
	// inputs above the 8 KiB threshold with exactly one bad line first, in the middle or last
	badLines := []string{`[`, `1`, `{} {}`, `[1,`, `2]`, `}`, `[{"id":1}`, `{"a":{"b":1}`, `{"a":"x`, `y"}`, "[\"a\tb\"]", `[tru]`, `{"a":1,}`, `[01]`}
	w.Note(fmt.Sprintf("large inputs: 420 valid lines (~8.8 KB, concurrent path) with one of %d bad lines (incl. lines that leave a scope open yet end in } or ]) placed first, in the middle or last; LF and CRLF", len(badLines)))
	for bi, bad := range badLines {
		for pos := 0; pos < 3; pos++ {
			w.res.States++
			if !w.Mine() || w.Expired() {
				continue
			}
			for eol := 0; eol < 2; eol++ {
				var b bytes.Buffer
				nl := "\n"
				if eol == 1 {
					nl = "\r\n"
				}
				for i := 0; i < 420; i++ {
					if (pos == 0 && i == 0) || (pos == 1 && i == 210) {
						b.WriteString(bad + nl)
					}
					fmt.Fprintf(&b, "{\"i\":%d,\"s\":\"v%d\"}%s", i, (i*7+bi)%13, nl)
				}
				if pos == 2 {
					b.WriteString(bad)
				}
				w.res.Transitions++
				fn("large-one-bad-line", b.Bytes())
			}
		}
	}
	w.res.States++
	if w.Mine() {
		var b bytes.Buffer
		for i := 0; i < 30000; i++ {
			fmt.Fprintf(&b, "{\"i\":%d}\n", i)
			if i%1000 == 7 {
				b.WriteString("\n \r\n")
			}
		}
		w.res.Transitions++
		fn("30000-lines", b.Bytes())
	}
}

// perLineVerdict applies the property's own definition with the real Parse.
// lineCache remembers the real Parse's verdict per (config, line): the line alphabet is
// tiny, the verdict of a line does not depend on its neighbours.
var lineCache = map[string]bool{}

func perLineVerdict(c Cfg, text []byte) (allOK bool, nonBlank int, panicked string) {
	allOK = true
	for _, line := range bytes.Split(text, []byte{'\n'}) {
		if len(ref.TrimJSONWS(line)) == 0 {
			continue
		}
		nonBlank++
		key := c.String() + "\x00" + string(line)
		ok, hit := lineCache[key]
		if !hit {
			_, err, p := doParse(c, line, nil, false)
			if p != "" {
				return false, nonBlank, p
			}
			ok = err == nil
			if len(lineCache) < 1<<16 {
				lineCache[key] = ok
			}
		}
		if !ok {
			allOK = false
		}
	}
	return
}

func c08Check(w *W, harness string, text []byte) {
	w.res.Evaluations++
	docs, verdict := ref.ParseND(text)
	var ex *expect
	if verdict == ref.Valid {
		ex = mkExpect(docs)
		w.Distinct(hashBytes([]byte(ex.exact)))
	}
	for _, c := range allCfgs() {
		w.cur.Set(harness, c.String(), text)
		pj, err, panicked := doParse(c, text, nil, true)
		w.res.Validated++
		bad, fp := "", ""
		switch {
		case panicked != "":
			bad, fp = "panic: "+panicked, "panic"
		case (pj == nil) == (err == nil):
			bad, fp = "result and error not exclusive", "exclusive"
		default:
			allOK, nonBlank, p := perLineVerdict(c, text)
			switch {
			case p != "":
				bad, fp = "panic in per-line Parse: "+p, "panic"
			case nonBlank == 0:
				// no document at all: outside the claim
			case allOK && err != nil:
				bad, fp = "every non-blank line is accepted by Parse but ParseND failed: "+err.Error(), "nd-rejects"
			case !allOK && err == nil:
				bad, fp = "some line is rejected by Parse but ParseND succeeded", "nd-accepts"
			case verdict == ref.Valid && err != nil:
				bad, fp = "model: valid NDJSON, ParseND failed: "+err.Error(), "model-valid-rejected"
			case verdict == ref.Invalid && err == nil:
				bad, fp = "model: invalid NDJSON, ParseND succeeded", "model-invalid-accepted"
			}
		}
		if bad == "" && err == nil && ex != nil {
			if what, walker := compareWalkers(pj, ex, false); what != "" {
				bad, fp = walker+": "+what, "walker/"+walker
			}
		}
		if bad != "" {
			w.Violate(Violation{Harness: harness, Fingerprint: "C08/" + fp, What: bad, Case: append([]byte(nil), text...), Config: c.String()})
		}
	}
}

func c08Body(w *W) {
	forEachNDInput(w, func(name string, text []byte) { c08Check(w, "C08-"+name, text) })
}

func c08Replay(v *Violation) string {
	w := &W{Prop: "C08", distinct: map[uint64]struct{}{}, fpSeen: map[string]int{}, cur: &curFile{}}
	c08Check(w, v.Harness, v.Case)
	for _, x := range w.res.Violations {
		if x.Config == v.Config {
			return "FAIL " + x.What
		}
	}
	if len(w.res.Violations) > 0 {
		return "FAIL (other config) " + w.res.Violations[0].What
	}
	return "OK"
}

func init() {
	register(&check{
		prop: "C08", name: "ndjson-per-line", level: "model_checking",
		rule:   "Every line sequence of the bounded space (<= L lines over a 15-line alphabet of valid, invalid and blank lines x LF/CRLF x final newline; root-boundary carriers sweeping every index-buffer slot around the flush edges; 8 KiB threshold; 30000 lines) is given to the real ParseND under all configs. Oracle = the property's definition evaluated with the real Parse on each non-blank line, cross-checked with the independent NDJSON model; on success the exposed roots must equal the per-line reference trees through all walkers. states=line sequences, transitions=input texts, traces_validated=ParseND calls compared; distinct_nontrivial=distinct accepted document lists.",
		assume: []string{"inputs with no non-blank line are treated as outside the claim (either outcome)"},
		body:   c08Body,
		replay: c08Replay,
	})
}
