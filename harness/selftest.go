package main

import (
	"encoding/json"
	"fmt"
	"math"
	"os"
	"strconv"
	"strings"

	"verif/ref"
)

// selftestMain validates the oracles against independent stdlib implementations.
// A disagreement is a harness error (exit 3), never a VIOLATION.
func selftestMain() {
	bad := 0
	report := func(f string, a ...any) {
		bad++
		if bad < 20 {
			fmt.Printf("ORACLE-SELFTEST "+f+"\n", a...)
		}
	}
	// 1. grammar model vs encoding/json on all byte strings <= 5 wrapped in [ ]
	n := 0
	buf := make([]byte, 0, 8)
	var rec func(d int)
	rec = func(d int) {
		in := append(append([]byte{'['}, buf...), ']')
		_, v := ref.Parse(in)
		jv := json.Valid(in)
		if jv {
			var x interface{}
			if err := json.Unmarshal(in, &x); err != nil {
				jv = false // number out of range
			}
		}
		n++
		switch {
		case v == ref.Valid && !jv:
			report("model valid, encoding/json invalid: %q", in)
		case v == ref.Invalid && jv:
			report("model invalid, encoding/json valid: %q", in)
		}
		if d == 5 {
			return
		}
		for _, b := range c01Bytes {
			buf = append(buf, b)
			rec(d + 1)
			buf = buf[:len(buf)-1]
		}
	}
	rec(0)
	// token pairs
	for _, a := range c01Tokens {
		for _, b := range c01Tokens {
			for ctx := 0; ctx < 3; ctx++ {
				in := wrap3([]byte(a+b), ctx)
				_, v := ref.Parse(in)
				jv := json.Valid(in)
				if jv {
					var x interface{}
					if json.Unmarshal(in, &x) != nil {
						jv = false
					}
				}
				if ctx == 0 && jv {
					t := strings.TrimLeft(string(in), " \t\r\n")
					jv = t != "" && (t[0] == '{' || t[0] == '[')
				}
				n++
				if (v == ref.Valid && !jv) || (v == ref.Invalid && jv) {
					report("model %v vs encoding/json valid=%v: %q", v, jv, in)
				}
			}
		}
	}
	// 2. number model vs strconv on a lattice
	m := 0
	check := func(lit string) {
		if !ref.IsNumberLiteral([]byte(lit)) {
			return
		}
		m++
		nd, ok := ref.ClassifyNumber([]byte(lit))
		f, err := strconv.ParseFloat(lit, 64)
		if (err != nil) != !ok {
			report("number %q: model finite=%v strconv err=%v", lit, ok, err)
			return
		}
		if !ok {
			return
		}
		var got float64
		switch nd.K {
		case ref.KInt:
			i, err := strconv.ParseInt(lit, 10, 64)
			if err != nil || i != nd.I {
				report("number %q: model int %d strconv %d %v", lit, nd.I, i, err)
			}
			return
		case ref.KUint:
			u, err := strconv.ParseUint(lit, 10, 64)
			if err != nil || u != nd.U {
				report("number %q: model uint %d strconv %d %v", lit, nd.U, u, err)
			}
			return
		default:
			got = nd.F
		}
		if math.Float64bits(got) != math.Float64bits(f) {
			report("number %q: model %x strconv %x", lit, math.Float64bits(got), math.Float64bits(f))
		}
	}
	for _, mant := range []string{"0", "1", "9", "12", "1.5", "0.1", "123456789", "9007199254740993", "2.2250738585072011", "2.2250738585072014", "4.9", "1.7976931348623157", "1.7976931348623159", "17976931348623158", "0.000001", "9223372036854775807", "9223372036854775808", "18446744073709551615", "18446744073709551616", "123456789012345678901234567890"} {
		for e := -345; e <= 320; e++ {
			for _, sp := range []string{"e", "E", "e+", "e-0"} {
				if e < 0 && sp != "e" && sp != "E" {
					continue
				}
				lit := mant + sp + strconv.Itoa(e)
				if sp == "e-0" {
					lit = mant + "e-0" + strconv.Itoa(e)
				}
				check(lit)
				check("-" + lit)
			}
		}
		check(mant)
		check("-" + mant)
	}
	if bad > 0 {
		fmt.Printf("oracle self-test FAILED: %d disagreements\n", bad)
		os.Exit(3)
	}
	fmt.Printf("oracle self-test ok: %d grammar cases, %d number literals agree with the standard library\n", n, m)
}
