package main

import (
	"bytes"
	"fmt"
	"runtime"
	"strings"
	"syscall"
	"time"

	simdjson "github.com/minio/simdjson-go"

	"verif/ref"
)

var mutationSeeds = []string{
	`{"a":1,"b":[true,false,null],"c":{"d":"e\n\u00e9\ud83d\ude00","f":-1.5e+10}}`,
	`[1,2,3,"x",{"k":[]},{},[[]],0.5,-0,1E5,18446744073709551615]`,
	`{"key with spaces":"value \"quoted\" \\ backslash","":"empty key","nested":{"a":{"b":{"c":[1,[2,[3]]]}}}}`,
	`[ 1 , 2 ,	3 ,
 4 ]`,
	`{"unicode":"\u0041\u00e9\u20ac\ud834\udd1e","raw":"Aé€𝄞","ctl":"\b\f\n\r\t\/"}`,
	`[true,false,null,true ,false ,null ]`,
	`{"n":[0,-0,0.0,-0.0,1e0,1e-0,1E+0,123456789012345678901234567890,9223372036854775807,-9223372036854775808,9223372036854775808]}`,
	`[[[[[[[[[[[[[[[[[[[[[[[[[[[[[[[[[]]]]]]]]]]]]]]]]]]]]]]]]]]]]]]]]]`,
	`{"a":{"a":{"a":{"a":{"a":{"a":{"a":{"a":{"a":{"a":{}}}}}}}}}}}`,
	`["` + "0123456789012345678901234567890123456789012345678901234567890123456789" + `","short"]`,
	`{"a":"` + "xxxxxxxxxxxxxxxxxxxxxxxxxxxxxxxxxxxxxxxxxxxxxxxxxxxxxxxxxxxxxxx\\\"" + `"}`,
	"{\"a\":1}\n{\"b\":2}\n\n[3]\r\n{\"c\":{\"d\":[4,5]}}\n",
	"[1]\n[2]\n[3]",
	`[]`, `{}`, `[{}]`, `{"":[]}`,
	`[1.7976931348623157e308,5e-324,2.2250738585072014e-308,1e400]`,
	`{"a":[{"b":[{"c":[{"d":"e"}]}]}],"z":"end"}`,
	`["\\","\\\\","\"","\\\"","a\\","\\u0041"]`,
}

var insertAlphabet = []byte(`[]{},:"\01-.et ` + "\n\x00")

// forEachMutationInput enumerates the single-edit closure of the seed documents.
func forEachMutationInput(w *W, emit func(in []byte, name string)) {
	total := 0
	for _, s := range mutationSeeds {
		total += len(s)
	}
	w.Note(fmt.Sprintf("mutation closure of %d seed documents (%d bytes): every prefix, every byte x 256 values, every single deletion, every insertion of one of %d bytes at every position, every swap of adjacent bytes", len(mutationSeeds), total, len(insertAlphabet)))
	for _, seed := range mutationSeeds {
		b := []byte(seed)
		for pos := 0; pos <= len(b); pos++ {
			w.res.States++
			if !w.Mine() || w.Expired() || w.TooManyViolations() {
				continue
			}
			w.res.Transitions++
			emit(b[:pos], "prefix")
			emit(b[pos:], "suffix")
			for _, c := range insertAlphabet {
				m := append(append(append([]byte(nil), b[:pos]...), c), b[pos:]...)
				w.res.Transitions++
				emit(m, "insert")
			}
			if pos == len(b) {
				continue
			}
			m := append([]byte(nil), b...)
			for v := 0; v < 256; v++ {
				if byte(v) == b[pos] {
					continue
				}
				m[pos] = byte(v)
				w.res.Transitions++
				emit(m, "substitute")
			}
			w.res.Transitions++
			emit(append(append([]byte(nil), b[:pos]...), b[pos+1:]...), "delete")
			if pos+1 < len(b) {
				sw := append([]byte(nil), b...)
				sw[pos], sw[pos+1] = sw[pos+1], sw[pos]
				w.res.Transitions++
				emit(sw, "swap")
			}
		}
	}
}

// forEachLadderInput: adversarial depth and density around every internal boundary.
func forEachLadderInput(w *W, emit func(in []byte, name string)) {
	_, flushAt, _ := simdjson.VerifGeometry()
	var ns []int
	add := func(c int) {
		for d := -3; d <= 3; d++ {
			if c+d > 0 {
				ns = append(ns, c+d)
			}
		}
	}
	for _, c := range []int{1, 4, 32, 64, 128, 448, 512, 8192} {
		add(c)
	}
	for k := 1; k <= 17; k++ {
		add(flushAt * k)
	}
	big := []int{100000}
	if w.Thorough() {
		big = append(big, 1000000)
	}
	w.Note(fmt.Sprintf("ladders: [^n, [^n ]^n, {\"\":^n, ,^n, \"^n, \\^n, [0,0,...^n, [\"a\",...^n, deep valid nesting, for n within 3 of 1, 4, 32, 64, 128, 448, 512, 8192 and %d*k (k=1..17), and n in %v", flushAt, big))
	shapes := []struct {
		name string
		gen  func(n int) []byte
	}{
		{"open-brackets", func(n int) []byte { return bytes.Repeat([]byte{'['}, n) }},
		{"nested-arrays", func(n int) []byte {
			return append(bytes.Repeat([]byte{'['}, n), bytes.Repeat([]byte{']'}, n)...)
		}},
		{"open-objects", func(n int) []byte { return bytes.Repeat([]byte(`{"":`), n) }},
		{"nested-objects", func(n int) []byte {
			return append(append(bytes.Repeat([]byte(`{"":`), n), '0'), bytes.Repeat([]byte{'}'}, n)...)
		}},
		{"commas", func(n int) []byte { return append(append([]byte{'['}, bytes.Repeat([]byte{','}, n)...), ']') }},
		{"quotes", func(n int) []byte { return append(append([]byte{'['}, bytes.Repeat([]byte{'"'}, n)...), ']') }},
		{"backslashes", func(n int) []byte {
			return append(append([]byte(`["`), bytes.Repeat([]byte{'\\'}, n)...), '"', ']')
		}},
		{"dense-numbers", func(n int) []byte {
			return append(append([]byte{'['}, bytes.Repeat([]byte("0,"), n)...), '0', ']')
		}},
		{"dense-numbers-unterminated", func(n int) []byte { return append([]byte{'['}, bytes.Repeat([]byte("0,"), n)...) }},
		{"dense-strings", func(n int) []byte {
			return append(append([]byte{'['}, bytes.Repeat([]byte(`"a",`), n)...), '1', ']')
		}},
		{"dense-bad-late", func(n int) []byte {
			return append(append([]byte{'['}, bytes.Repeat([]byte("0,"), n)...), 'x', ']')
		}},
		{"dense-bad-early", func(n int) []byte {
			return append(append([]byte("[x,"), bytes.Repeat([]byte("0,"), n)...), '0', ']')
		}},
		{"dense-nd", func(n int) []byte { return bytes.Repeat([]byte("{}\n"), n) }},
		{"control-early", func(n int) []byte {
			return append(append([]byte("[\"\x01\","), bytes.Repeat([]byte("0,"), n)...), '0', ']')
		}},
	}
	for _, sh := range shapes {
		for _, n := range append(append([]int(nil), ns...), big...) {
			w.res.States++
			if !w.Mine() || w.Expired() || w.TooManyViolations() {
				continue
			}
			w.res.Transitions++
			emit(sh.gen(n), fmt.Sprintf("ladder-%s-%d", sh.name, n))
		}
	}
}

// guardRegion: [PROT_NONE page][data][PROT_NONE page]; inputs are placed flush against
// either guard so a single byte read outside the slice faults.
type guardRegion struct {
	mem  []byte
	data []byte
}

const guardData = 4 << 20

func newGuardRegion() *guardRegion {
	pg := syscall.Getpagesize()
	mem, err := syscall.Mmap(-1, 0, guardData+2*pg, syscall.PROT_READ|syscall.PROT_WRITE, syscall.MAP_ANON|syscall.MAP_PRIVATE)
	if err != nil {
		return nil
	}
	if syscall.Mprotect(mem[:pg], syscall.PROT_NONE) != nil || syscall.Mprotect(mem[pg+guardData:], syscall.PROT_NONE) != nil {
		return nil
	}
	return &guardRegion{mem: mem, data: mem[pg : pg+guardData]}
}

func (g *guardRegion) atEnd(in []byte) []byte {
	if g == nil || len(in) > guardData {
		return append([]byte(nil), in...)
	}
	d := g.data[guardData-len(in):]
	copy(d, in)
	return d
}

func (g *guardRegion) atStart(in []byte) []byte {
	if g == nil || len(in) > guardData {
		return append([]byte(nil), in...)
	}
	d := g.data[:len(in):len(in)]
	copy(d, in)
	return d
}

type c05ctx struct {
	w        *W
	sess     [4]*parseSession
	g        *guardRegion
	baseline int
	n        int
}

func (c *c05ctx) judge(harness string, in []byte, cfg Cfg, nd bool, pj *simdjson.ParsedJson, err error, panicked string) {
	c.judgeT(harness, in, cfg, nd, pj, err, panicked, true)
}

// judgeT: traverse=false only checks that the call returned exactly one of result/error
// (the tape is the same under every config - C06 - so one traversal per input suffices).
func (c *c05ctx) judgeT(harness string, in []byte, cfg Cfg, nd bool, pj *simdjson.ParsedJson, err error, panicked string, traverse bool) {
	w := c.w
	w.res.Validated++
	bad, fp := "", ""
	switch {
	case panicked != "":
		bad, fp = "panic: "+panicked, "panic/"+panicClass(panicked)
	case (pj == nil) == (err == nil):
		bad, fp = "neither exactly an error nor exactly a result", "exclusive"
	case pj != nil && !traverse:
		w.Count("accepted", 1)
	case pj != nil:
		w.Count("accepted", 1)
		t0 := time.Now()
		if what := traverseAll(pj); what != "" {
			bad, fp = what, "traverse"
		}
		w.Count("us_in_traversal_of_accepted_results_"+strings.SplitN(harness, "-", 3)[1], time.Since(t0).Microseconds())
	default:
		w.Count("rejected", 1)
	}
	if bad != "" {
		mode := "Parse"
		if nd {
			mode = "ParseND"
		}
		w.Violate(Violation{Harness: harness, Fingerprint: "C05/" + fp + "/" + mode, What: bad, Case: append([]byte(nil), in...), Config: cfg.String(), Args: mode})
	}
}

func (c *c05ctx) settle(harness string, in []byte) {
	// all internal goroutines must be gone once the call has returned
	for i := 0; i < 200; i++ {
		if runtime.NumGoroutine() <= c.baseline {
			return
		}
		runtime.Gosched()
		time.Sleep(time.Millisecond)
	}
	c.w.Violate(Violation{Harness: harness, Fingerprint: "C05/goroutine-leak", What: fmt.Sprintf("%d goroutines still alive 200 ms after the call returned (baseline %d): an internal stage did not terminate", runtime.NumGoroutine(), c.baseline), Case: append([]byte(nil), in...), Config: "-"})
	c.baseline = runtime.NumGoroutine()
}

// one input through every configuration
func (c *c05ctx) run(in []byte, harness string, heavy bool) {
	w := c.w
	w.res.Evaluations++
	c.n++
	cfgs := allCfgs()
	for i, cfg := range cfgs {
		w.cur.Set(harness, cfg.String()+"/reuse", in)
		pj, err, p := c.sess[i].parse(cfg, in, false)
		c.judgeT(harness, in, cfg, false, pj, err, p, i == c.n%len(cfgs) || len(in) < 512)
		if pj != nil && i == 0 {
			w.Distinct(tapeHash(pj))
		}
	}
	if heavy {
		// fresh objects, input flush against a guard page, Parse and ParseND
		a, b := cfgs[c.n%len(cfgs)], cfgs[(c.n+1)%len(cfgs)]
		w.cur.Set(harness, a.String()+"/guard-end", in)
		pj, err, p := doParse(a, c.g.atEnd(in), nil, false)
		c.judge(harness, in, a, false, pj, err, p)
		w.cur.Set(harness, b.String()+"/guard-start", in)
		pj, err, p = doParse(b, c.g.atStart(in), nil, false)
		c.judge(harness, in, b, false, pj, err, p)
		w.cur.Set(harness, a.String()+"/guard-end/nd", in)
		pj, err, p = doParse(a, c.g.atEnd(in), nil, true)
		c.judge(harness, in, a, true, pj, err, p)
		w.cur.Set(harness, b.String()+"/guard-start/nd", in)
		pj, err, p = doParse(b, c.g.atStart(in), nil, true)
		c.judge(harness, in, b, true, pj, err, p)
		if len(in) > 8000 || c.n&255 == 0 {
			c.settle(harness, in)
		}
	}
}

func c05Body(w *W) {
	c := &c05ctx{w: w, g: newGuardRegion()}
	for i := range c.sess {
		c.sess[i] = &parseSession{track: w.cur}
	}
	if c.g == nil {
		w.Note("guard pages unavailable (mmap/mprotect failed): inputs are placed in ordinary heap memory")
	} else {
		w.Note("guard pages: every heavy-path input is parsed once flush against a PROT_NONE page after its last byte and once flush behind one before its first byte")
	}
	runtime.Gosched()
	c.baseline = runtime.NumGoroutine()
	part := envInt("VERIF_C05_PART", 0)
	timed := func(name string, f func()) {
		t0 := time.Now()
		f()
		w.Max("max_ms_"+name, time.Since(t0).Milliseconds())
	}
	// (1) the C01 spaces, light path (reuse sessions, all configs, traversal of accepted results)
	if part == 0 || part == 1 {
		timed("c01spaces", func() {
			forEachC01Input(w, func(in, probe []byte, harness string) { c.run(in, "C05-"+harness[4:], false) })
		})
	}
	// (2) mutation closure and ladders, heavy path
	if part == 0 || part == 2 {
		timed("mutation", func() {
			forEachMutationInput(w, func(in []byte, name string) { c.run(in, "C05-mutation-"+name, true) })
		})
	}
	if part == 0 || part == 3 {
		timed("ladders", func() {
			forEachLadderInput(w, func(in []byte, name string) { c.run(in, "C05-"+name, true) })
		})
	}
	if part == 0 || part == 4 {
		timed("nd", func() {
			forEachNDInput(w, func(name string, text []byte) { c.run(text, "C05-nd-"+name, len(text) > 4096) })
		})
	}
	// (5) a rejected input that needs several index buffers, then valid ones, through the same
	// reused parser state: whatever the failed call left queued must not reach the next call
	if part == 0 || part == 5 {
		w.Note("poison sequences: dense documents of 2..6 index buffers below the 8 KiB threshold (and 9 buffers above it) rejected by stage 2 inside the first, a middle or the last buffer (5 kinds of error), each followed by 3 valid documents (empty, small, dense) on the same reused parser state, all configurations")
		errs := []string{",", "x,", `"k":1,`, "]", "1 1,"}
		follow := [][]byte{[]byte("[]"), []byte(`{"a":[1,"x"],"b":null}`), append(append([]byte("["), bytes.Repeat([]byte("7,"), 1500)...), "7]"...)}
		for _, pairs := range []int{800, 1500, 2200, 2900, 3600, 4050, 6500} {
			for ei, e := range errs {
				for where := 0; where < 3; where++ {
					w.res.States++
					if !w.Mine() || w.Expired() || w.TooManyViolations() {
						continue
					}
					at := []int{3, pairs / 2, pairs - 2}[where]
					var b bytes.Buffer
					b.WriteByte('[')
					for i := 0; i < pairs; i++ {
						if i == at {
							b.WriteString(e)
						}
						b.WriteString("1,")
					}
					b.WriteString("1]")
					name := fmt.Sprintf("C05-poison/%d-pairs/err%d/where%d", pairs, ei, where)
					c.run(b.Bytes(), name, false)
					for _, f := range follow {
						// judged under a case that names the whole sequence
						seq := append(append(append([]byte(nil), b.Bytes()...), c05SeqSep...), f...)
						w.res.Evaluations++
						for i, cfg := range allCfgs() {
							w.cur.Set(name+"/then-valid", cfg.String()+"/reuse", seq)
							pj, err, p := c.sess[i].parse(cfg, f, false)
							if p == "" && err != nil {
								p = "a valid document was rejected after the rejected one: " + err.Error()
							}
							c.judgeT(name+"/then-valid", seq, cfg, false, pj, err, p, true)
						}
					}
					w.res.Transitions += 4
				}
			}
		}
	}
	// (6) documents above the 8 KiB threshold cut off in the middle: the token on which an
	// index buffer ends (a colon, a comma, a quote, a bracket) x where the input is cut
	if part == 0 || part == 6 {
		w.Note("cut large documents: an object of 1700 members (~24 KB, 5 index buffers) with 0..9 extra structurals in front (so each kind of token ends an index buffer) cut at every byte of a 200-byte window behind each 1408th structural and at the very end; Parse and ParseND, all configurations, guard pages")
		for pad := 0; pad <= 9; pad++ {
			w.res.States++
			if !w.Mine() || w.Expired() || w.TooManyViolations() {
				continue
			}
			var b bytes.Buffer
			b.WriteString(`{"p":[`)
			for i := 0; i < pad; i++ {
				if i > 0 {
					b.WriteByte(',')
				}
				b.WriteByte('0')
			}
			b.WriteString(`]`)
			for i := 0; i < 1700; i++ {
				fmt.Fprintf(&b, `,"k%d":"v%d"`, i, i*7)
			}
			b.WriteString(`}`)
			doc := b.Bytes()
			// byte offsets at which the (k*flush)-th structural index lies
			_, flushAt, _ := simdjson.VerifGeometry()
			var marks []int
			cnt, inStr := 0, false
			for i, ch := range doc {
				structural := false
				if ch == '"' {
					if !inStr {
						structural = true
					}
					inStr = !inStr
				} else if !inStr && (ch == '{' || ch == '}' || ch == '[' || ch == ']' || ch == ':' || ch == ',' || (ch >= '0' && ch <= '9' && (i == 0 || strings.IndexByte("[,:", doc[i-1]) >= 0))) {
					structural = true
				}
				if structural {
					cnt++
					if cnt%flushAt == 0 {
						marks = append(marks, i)
					}
				}
			}
			marks = append(marks, len(doc)-200)
			for _, m := range marks {
				for cut := m + 1; cut <= m+200 && cut <= len(doc); cut++ {
					if cut < 8300 {
						continue
					}
					w.res.Transitions++
					c.run(doc[:cut], fmt.Sprintf("C05-cut-large/pad%d", pad), true)
				}
			}
		}
	}
	w.Sample(fmt.Sprintf("mutation sample: %q with byte 17 replaced by 0x00..0xff", mutationSeeds[0]))
}

func refValid(in []byte) bool {
	_, verdict := ref.Parse(in)
	return verdict == ref.Valid
}

const c05SeqSep = "\n----then, on the same reused parser state----\n"

func c05Replay(v *Violation) string {
	g := newGuardRegion()
	cfg := parseCfg(v.Config)
	if parts := bytes.SplitN(v.Case, []byte(c05SeqSep), 2); len(parts) == 2 {
		s := &parseSession{}
		s.parse(cfg, []byte("[1]"), false)
		_, err0, p0 := s.parse(cfg, parts[0], false)
		pj, err, p := s.parse(cfg, parts[1], false)
		if p != "" {
			return fmt.Sprintf("FAIL first input: err=%v panic=%q; second input on the same parser state: err=%v panic=%q", err0, p0, err, p)
		}
		if err != nil {
			// a rejection is a fine answer for an arbitrary second input; the poison sequences
			// (second input valid) are judged by the check itself, not by this replay
			if len(parts[1]) < 1<<16 && refValid(parts[1]) {
				return fmt.Sprintf("FAIL a valid second input was rejected on the same parser state: %v (first input: err=%v)", err, err0)
			}
			return "OK second input rejected"
		}
		if what := traverseAll(pj); what != "" {
			return "FAIL second input: " + what
		}
		return "OK"
	}
	nd := v.Args == "ParseND"
	for _, in := range [][]byte{g.atEnd(v.Case), g.atStart(v.Case)} {
		for _, ndm := range []bool{nd, !nd} {
			pj, err, p := doParse(cfg, in, nil, ndm)
			switch {
			case p != "":
				return "FAIL panic: " + p
			case (pj == nil) == (err == nil):
				return "FAIL result/error not exclusive"
			case pj != nil:
				if what := traverseAll(pj); what != "" {
					return "FAIL " + what
				}
			}
		}
	}
	return "OK returns and result (if any) is traversable"
}

func init() {
	register(&check{
		prop: "C05", name: "no-crash-no-hang", level: "model_checking",
		rule:   "Trivial model: the call returns exactly one of (result, error), nothing panics or faults, every traversal/lookup/marshal call on a result terminates within its step budget, and no internal goroutine outlives the call. Inputs, all enumerated completely: the C01 spaces (byte strings, token sequences, alignment, flush-edge, 8 KiB probes), the single-edit closure of 20 seed documents (prefixes, suffixes, 256-way substitution, deletion, insertion, swaps), adversarial ladders around 64/128/448/512/8192 and every multiple of the index-buffer flush threshold up to 17 (ring wrap) plus 10^5 (10^6), and the C08 line-sequence space; Parse and ParseND, all four configs, reused and fresh objects, inputs placed flush against PROT_NONE guard pages on either side. Poison sequences: a rejected multi-buffer document followed by valid ones on the same reused parser state. A watchdog turns a stuck call into a replayed, confirmed violation; a death the dying input alone does not reproduce is replayed together with the input the same parser state processed before it. states=enumeration nodes, transitions=inputs, traces_validated=calls judged; distinct_nontrivial=distinct accepted tapes.",
		assume: []string{"hang detection for uninstrumented code is a 100 s no-progress watchdog, confirmed by three replays in fresh processes", "stage deadlock on failure paths is additionally decided by schedule exploration in C07"},
		body:   c05Body,
		replay: c05Replay,
		seqSep: c05SeqSep,
	})
}
