package main

import (
	"bytes"
	"fmt"
	"strings"
	"unicode/utf8"

	"verif/ref"
)

// c04Doc checks one document whose strings are the subject: value must decode exactly.
func c04Doc(w *W, s *parseSession, in []byte, harness string, cfgs []Cfg) {
	d, verdict := ref.Parse(in)
	w.res.Evaluations++
	w.Count("verdict_"+verdict.String(), 1)
	var want string
	if verdict == ref.Valid {
		want = d.Render()
		w.Distinct(hashBytes([]byte(want)))
	}
	for _, c := range cfgs {
		w.cur.Set(harness, c.String(), in)
		pj, err, p := s.parse(c, in, false)
		w.res.Validated++
		bad, fp := "", ""
		switch {
		case p != "":
			bad, fp = "panic: "+p, "panic"
		case verdict == ref.Valid && err != nil:
			if _, err2, _ := doParse(c, in, nil, false); err2 != nil {
				bad, fp = "valid string document rejected: "+err.Error(), "rejected"
			}
		case verdict == ref.Valid:
			// read through long-lived Root/Array/Object destinations (the session reuses one
			// ParsedJson for every document, in both string modes)
			docs, werr := walkDoc(pj, walkCombos[4])
			if werr != nil {
				bad, fp = werr.Error(), "unreadable"
			} else if got := docs[0].Render(); got != want {
				bad, fp = fmt.Sprintf("strings exposed as %s, exact decoding is %s", clip(got), clip(want)), "decode"
			}
		case verdict == ref.Invalid && err == nil:
			w.Count("invalid_accepted_reported_by_C01_not_here", 1)
		}
		if bad != "" {
			w.Violate(Violation{Harness: harness, Fingerprint: "C04/" + fp + "/" + harness, What: bad, Case: append([]byte(nil), in...), Config: c.String()})
		}
	}
	// the same object once more without any option, right after its no-copy use: strings are
	// copied by default, so they must read the same after the input buffer was overwritten
	if verdict == ref.Valid && len(cfgs) == 2 && !cfgs[1].Copy {
		pj, err, p := s.parseDefaultScribbled(cfgs[1].AVX512, in)
		w.res.Validated++
		bad, fp := "", ""
		if p != "" {
			bad, fp = "panic: "+p, "panic"
		} else if err == nil {
			docs, werr := walkDoc(pj, walkCombos[4])
			if werr != nil {
				bad, fp = werr.Error(), "unreadable"
			} else if got := docs[0].Render(); got != want {
				bad, fp = fmt.Sprintf("strings exposed as %s, exact decoding is %s", clip(got), clip(want)), "decode"
			}
		}
		if bad != "" {
			w.Violate(Violation{Harness: harness, Fingerprint: "C04/default-after-nocopy/" + fp, What: "parsed without options into the object last used in no-copy mode, input overwritten afterwards: " + bad, Case: append([]byte(nil), in...), Config: "default-options-after-nocopy"})
		}
	}
}

func strModes() []Cfg { return []Cfg{{hasAVX512, true}, {hasAVX512, false}} }

// keyAndValue wraps a raw string literal (with quotes) as array value and as object key.
func keyAndValue(lit []byte, pad int) [2][]byte {
	sp := bytes.Repeat([]byte{' '}, pad)
	v := append(append(append([]byte{'['}, sp...), lit...), ']')
	k := append(append(append(append([]byte{'{'}, sp...), lit...), ":0,\"z\":"...), lit...)
	k = append(k, '}')
	return [2][]byte{v, k}
}

func c04Body(w *W) {
	s := &parseSession{}
	modes := strModes()
	hexd := "0123456789abcdef"
	hexD := "0123456789ABCDEF"

	// S1: all 65536 \u units x 16 hex-case masks, batched 16 units per document.
	w.Note("S1: all 65536 \\uXXXX units x 16 hex-case masks (lone surrogates are out of claim but must not crash)")
	for base := 0; base < 0x10000; base += 16 {
		w.res.States++
		if !w.Mine() {
			continue
		}
		for mask := 0; mask < 16; mask++ {
			var b bytes.Buffer
			b.WriteByte('[')
			for u := base; u < base+16; u++ {
				if u >= 0xD800 && u < 0xE000 {
					continue
				}
				if b.Len() > 1 {
					b.WriteByte(',')
				}
				b.WriteString(`"\u`)
				for k := 0; k < 4; k++ {
					nib := (u >> uint(12-4*k)) & 15
					if mask&(1<<uint(k)) != 0 {
						b.WriteByte(hexD[nib])
					} else {
						b.WriteByte(hexd[nib])
					}
				}
				b.WriteString(`x"`)
			}
			b.WriteByte(']')
			if b.Len() > 2 {
				w.res.Transitions++
				c04Doc(w, s, b.Bytes(), "S1-units", modes)
			}
		}
		// lone surrogates one by one: must return (either outcome)
		for u := base; u < base+16; u++ {
			if u >= 0xD800 && u < 0xE000 {
				in := []byte(fmt.Sprintf(`["\u%04x"]`, u))
				w.res.Transitions++
				c04Doc(w, s, in, "S1-lone-surrogate", modes)
			}
		}
		if w.Expired() || w.TooManyViolations() {
			return
		}
	}

	// S2: all 1,048,576 surrogate pairs; 16 per document, as values and as keys.
	stepHi := 1
	w.Note("S2: all 1024 x 1024 surrogate pairs (each must give one 4-byte UTF-8 code point), 16 pairs per document, as array values and as object keys")
	for hi := 0xD800; hi < 0xDC00; hi += stepHi {
		w.res.States++
		if !w.Mine() {
			continue
		}
		for lo0 := 0xDC00; lo0 < 0xE000; lo0 += 16 {
			var v, k bytes.Buffer
			v.WriteByte('[')
			k.WriteByte('{')
			for lo := lo0; lo < lo0+16; lo++ {
				if lo > lo0 {
					v.WriteByte(',')
					k.WriteByte(',')
				}
				fmt.Fprintf(&v, `"\u%04x\u%04X"`, hi, lo)
				fmt.Fprintf(&k, `"\u%04X\u%04x":1`, hi, lo)
			}
			v.WriteByte(']')
			k.WriteByte('}')
			w.res.Transitions += 2
			c04Doc(w, s, v.Bytes(), "S2-pairs-value", modes)
			c04Doc(w, s, k.Bytes(), "S2-pairs-key", modes)
		}
		if w.Expired() || w.TooManyViolations() {
			return
		}
	}

	// S3: every byte after a backslash, at every position 0..70, 4 paddings.
	s3pos, s3pads := 70, []int{0, 1, 31, 33}
	if w.Thorough() {
		s3pos, s3pads = 140, nil
		for p := 0; p < 64; p++ {
			s3pads = append(s3pads, p)
		}
	}
	w.Note(fmt.Sprintf("S3: every byte value after a backslash x position 0..%d in the string x %d paddings, value and key", s3pos, len(s3pads)))
	for bv := 0; bv < 256; bv++ {
		w.res.States++
		if !w.Mine() {
			continue
		}
		for pos := 0; pos <= s3pos; pos++ {
			for _, pad := range s3pads {
				lit := append([]byte{'"'}, bytes.Repeat([]byte{'a'}, pos)...)
				lit = append(lit, '\\', byte(bv), 'x', '"')
				for _, in := range keyAndValue(lit, pad) {
					w.res.Transitions++
					c04Doc(w, s, in, "S3-after-backslash", modes)
				}
			}
		}
	}

	// S4: every byte value in each hex position (first unit and low surrogate).
	s4pads := []int{0, 7, 30, 61}
	if w.Thorough() {
		s4pads = s3pads
	}
	w.Note(fmt.Sprintf("S4: every byte value in each of the 4 hex positions of \\u0041 and of both halves of \\ud83d\\ude00, %d alignments", len(s4pads)))
	for _, tmpl := range []string{`"\u0041"`, `"\ud83d\ude00"`, `"abc\ud83d\ude00"`} {
		t := []byte(tmpl)
		hexpos := map[int]bool{}
		for i := 0; i+5 < len(t); i++ {
			if t[i] == '\\' && t[i+1] == 'u' {
				for k := 2; k < 6; k++ {
					hexpos[i+k] = true
				}
			}
		}
		for i := range t {
			if !hexpos[i] {
				continue
			}
			w.res.States++
			if !w.Mine() {
				continue
			}
			for bv := 0; bv < 256; bv++ {
				m := append([]byte(nil), t...)
				m[i] = byte(bv)
				for _, pad := range s4pads {
					for _, in := range keyAndValue(m, pad) {
						w.res.Transitions++
						c04Doc(w, s, in, "S4-hex-positions", modes)
					}
				}
			}
		}
	}

	// S5: every Unicode scalar >= 0x20 as raw UTF-8, 32 per document.
	w.Note("S5: every Unicode scalar value >= 0x20 (except \" and \\) as raw UTF-8, 32 per document")
	for base := 0x20; base < 0x110000; base += 32 {
		w.res.States++
		if !w.Mine() {
			continue
		}
		var b bytes.Buffer
		b.WriteString(`["`)
		n := 0
		for r := base; r < base+32; r++ {
			if r == '"' || r == '\\' || (r >= 0xD800 && r < 0xE000) {
				continue
			}
			var tmp [4]byte
			k := utf8.EncodeRune(tmp[:], rune(r))
			b.Write(tmp[:k])
			n++
			if n%8 == 0 {
				b.WriteString(`","`)
			}
		}
		b.WriteString(`"]`)
		w.res.Transitions++
		c04Doc(w, s, b.Bytes(), "S5-raw-utf8", modes)
		if w.Expired() || w.TooManyViolations() {
			return
		}
	}

	// S6: lengths x start offsets x {plain, escape first, escape last}.
	maxLen, stride := 4096, 5
	if w.Thorough() {
		stride = 1
	}
	w.Note(fmt.Sprintf("S6: string lengths 0..%d (every length <= 700, then every %d-th and every length within 2 of a multiple of 32) x start offsets 0..63 x {plain, escape first, escape last}, value and key, at the end of the input", maxLen, stride))
	body := make([]byte, maxLen+8)
	for i := range body {
		body[i] = byte('a' + i%23)
	}
	for l := 0; l <= maxLen; l++ {
		if l > 700 && l%stride != 0 && l%32 > 2 && l%32 < 30 {
			continue
		}
		w.res.States++
		if !w.Mine() {
			continue
		}
		for off := 0; off < 64; off++ {
			for variant := 0; variant < 3; variant++ {
				lit := []byte{'"'}
				switch variant {
				case 1:
					lit = append(lit, `\n`...)
				}
				lit = append(lit, body[:l]...)
				if variant == 2 {
					lit = append(lit, `\u00e9`...)
				}
				lit = append(lit, '"')
				ins := keyAndValue(lit, off)
				w.res.Transitions += 2
				c04Doc(w, s, ins[0], "S6-length-offset", modes)
				if l <= 700 {
					c04Doc(w, s, ins[1], "S6-length-offset-key", modes)
				}
			}
		}
		if w.Expired() || w.TooManyViolations() {
			return
		}
	}

	// S7: each escape kind at every position of every length, all offsets.
	maxL7 := 66
	if w.Thorough() {
		maxL7 = 260
	}
	kinds := []string{`\n`, `\"`, `\\`, `\/`, `\u0041`, `\u00e9`, `\u20ac`, `\ud83d\ude00`, "é", "😀"}
	w.Note(fmt.Sprintf("S7: %d escape kinds at every position of every string length <= %d x start offsets 0..63", len(kinds), maxL7))
	for l := 0; l <= maxL7; l++ {
		for pos := 0; pos <= l; pos++ {
			w.res.States++
			if !w.Mine() {
				continue
			}
			for _, k := range kinds {
				for off := 0; off < 64; off++ {
					in := make([]byte, 0, off+l+24)
					in = append(in, '[')
					for i := 0; i < off; i++ {
						in = append(in, ' ')
					}
					in = append(in, '"')
					in = append(in, body[:pos]...)
					in = append(in, k...)
					in = append(in, body[pos:l]...)
					in = append(in, '"', ']')
					w.res.Transitions++
					c04Doc(w, s, in, "S7-escape-position", modes)
				}
			}
		}
		if w.Expired() || w.TooManyViolations() {
			return
		}
	}

	// S8: backslash runs straddling block and half-block boundaries; both kernels.
	w.Note("S8: backslash runs of length 1..9 followed by a quote or 'n', ending on bytes 28..36 and 60..68 of a 64-byte block and of the second block, all four configs (parity decides validity)")
	for run := 1; run <= 9; run++ {
		for _, endAt := range []int{28, 29, 30, 31, 32, 33, 34, 35, 36, 60, 61, 62, 63, 64, 65, 66, 67, 68, 124, 125, 126, 127, 128, 129, 130} {
			w.res.States++
			if !w.Mine() {
				continue
			}
			for _, follow := range []string{`"`, `n`, `"]`, `\"`} {
				// input: [" + filler + run backslashes + follow + "]  with the run ending at byte endAt
				fill := endAt - 2 - run + 1
				if fill < 0 {
					continue
				}
				in := append([]byte(`["`), body[:fill]...)
				in = append(in, bytes.Repeat([]byte{'\\'}, run)...)
				in = append(in, follow...)
				in = append(in, `z"]`...)
				w.res.Transitions++
				c04Doc(w, s, in, "S8-backslash-runs", allCfgs())
				in2 := append([]byte(`{"k":[0],"`), body[:fill]...)
				in2 = append(in2, bytes.Repeat([]byte{'\\'}, run)...)
				in2 = append(in2, follow...)
				in2 = append(in2, `z":1}`...)
				c04Doc(w, s, in2, "S8-backslash-runs-key", allCfgs())
			}
		}
	}
	// S9: escapes x index-buffer flush x alignment (the odd-backslash carry across a flush)
	w.Note("S9: arrays of 500 and 1500 strings with escaped quotes / escaped backslashes before the closing quote, preceded by 0..63 bytes of padding, so that the backslash of an escape becomes the last byte of the block at which an index buffer is flushed; all four configs")
	elems := []string{`"a\"b"`, `"c\\"`, `"\\\"q"`, `{"k\"":"v\\"}`, `"plain"`}
	for _, count := range []int{500, 1500} {
		for pad := 0; pad < 64; pad++ {
			w.res.States++
			if !w.Mine() || w.Expired() {
				continue
			}
			var b bytes.Buffer
			b.WriteString(`["` + strings.Repeat("p", pad) + `"`)
			for i := 0; i < count; i++ {
				b.WriteByte(',')
				b.WriteString(elems[(i*7+i/5)%len(elems)])
			}
			b.WriteByte(']')
			w.res.Transitions++
			c04Doc(w, s, b.Bytes(), "S9-escape-at-flush", allCfgs())
		}
	}
	w.Sample(`S2 sample: ["𐀀","𐀁",…]; S7 sample: [   "abc€def"]`)
}

func c04Replay(v *Violation) string {
	c := parseCfg(v.Config)
	d, vd := ref.Parse(v.Case)
	pj, err, p := doParse(c, v.Case, nil, false)
	if v.Config == "default-options-after-nocopy" {
		s := &parseSession{}
		s.parse(Cfg{hasAVX512, false}, v.Case, false)
		pj, err, p = s.parseDefaultScribbled(hasAVX512, v.Case)
	}
	if p != "" {
		return "FAIL panic " + p
	}
	if vd != ref.Valid {
		return fmt.Sprintf("OK (model verdict %v, err=%v)", vd, err)
	}
	if err != nil {
		return "FAIL valid document rejected: " + err.Error()
	}
	docs, werr := walkDoc(pj, walkCombos[0])
	if werr != nil {
		return "FAIL " + werr.Error()
	}
	if docs[0].Render() != d.Render() {
		return "FAIL exposed " + clip(docs[0].Render()) + " want " + clip(d.Render())
	}
	return "OK " + clip(d.Render())
}

func init() {
	register(&check{
		prop: "C04", name: "string-decoding", level: "model_checking",
		rule:   "Exactly the quantifier's spaces, each enumerated completely: all 65536 \\u units x 16 hex-case masks; all 1048576 surrogate pairs (values and keys); every byte after a backslash x position x padding; every byte in every hex position; every Unicode scalar raw; lengths 0..4096 x start offsets 0..63 x escape first/last; 10 escape kinds at every position of every length x 64 offsets; backslash runs 1..9 across (half-)block boundaries on both kernels. Each document is parsed by the real code in copy and no-copy mode and the exposed strings must be byte-equal to the reference unescaper's output. states=enumeration nodes, transitions=documents, traces_validated=Parse calls compared; distinct_nontrivial=distinct decoded documents.",
		assume: []string{"reference unescaper in ref/refjson.go (cross-checked against encoding/json in setup)", "documents the model calls invalid are C01's business and only counted here"},
		body:   c04Body,
		replay: c04Replay,
	})
}
