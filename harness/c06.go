package main

import (
	"bytes"
	"fmt"

	simdjson "github.com/minio/simdjson-go"
)

type c06ctx struct {
	w      *W
	sA, sB *parseSession
}

func sameTape(a, b *simdjson.ParsedJson) bool {
	if len(a.Tape) != len(b.Tape) {
		return false
	}
	for i := range a.Tape {
		if a.Tape[i] != b.Tape[i] {
			return false
		}
	}
	return bytes.Equal(a.Strings.B, b.Strings.B)
}

// diff runs one input on both kernel families and compares outcome, tape and strings.
func (c *c06ctx) diff(in []byte, nd bool, harness string) {
	w := c.w
	w.res.Evaluations++
	mode := "Parse"
	if nd {
		mode = "ParseND"
	}
	w.cur.Set(harness, mode, in)
	cA, cB := Cfg{true, true}, Cfg{false, true}
	var pa, pb *simdjson.ParsedJson
	var ea, eb error
	var xa, xb string
	if nd {
		pa, ea, xa = doParse(cA, in, nil, true)
		pb, eb, xb = doParse(cB, in, nil, true)
	} else {
		pa, ea, xa = c.sA.parse(cA, in, false)
		pb, eb, xb = c.sB.parse(cB, in, false)
	}
	w.res.Validated++
	bad := ""
	switch {
	case xa != "" || xb != "":
		bad = fmt.Sprintf("panic: avx512=%q avx2=%q", xa, xb)
	case (ea == nil) != (eb == nil):
		bad = fmt.Sprintf("AVX-512 kernels: err=%v; AVX2 kernels: err=%v", ea, eb)
	case ea == nil && !sameTape(pa, pb):
		bad = "both kernel families accept but tape or string buffer differ"
	}
	if bad != "" && !nd {
		// re-decide on fresh objects (the sessions re-attach internals after failures)
		fa, e1, _ := doParse(cA, in, nil, false)
		fb, e2, _ := doParse(cB, in, nil, false)
		if (e1 == nil) == (e2 == nil) && (e1 != nil || sameTape(fa, fb)) {
			w.Count("reuse_artifact_discarded", 1)
			c.sA, c.sB = &parseSession{}, &parseSession{}
			bad = ""
		}
	}
	if bad != "" {
		w.Violate(Violation{Harness: harness, Fingerprint: "C06/whole/" + mode, What: bad, Case: append([]byte(nil), in...), Config: mode})
	}
	if ea == nil && pa != nil {
		w.Distinct(tapeHash(pa))
		w.Count("both_accept", 1)
	} else {
		w.Count("both_reject", 1)
	}
}

var c06Classes = []byte{'"', '\\', ' ', '\n', '{', ',', '1', 'a', 0x01, 0xC3}

type s1Out struct {
	st        simdjson.VerifS1State
	processed uint64
	idx       []uint32
}

func runS1(avx512 bool, buf []byte, st simdjson.VerifS1State, nd uint64, scratch *[simdjson.VerifIndexSize]uint32) s1Out {
	processed := simdjson.VerifStage1(avx512, buf, &st, scratch, nd)
	n := st.IndexLen
	if n < 0 || n > len(scratch) {
		n = 0
	}
	return s1Out{st: st, processed: processed, idx: append([]uint32(nil), scratch[:n]...)}
}

func (c *c06ctx) kernel(buf []byte, st simdjson.VerifS1State, nd uint64, sa, sb *[simdjson.VerifIndexSize]uint32, harness string) {
	w := c.w
	w.res.Evaluations++
	w.res.Transitions++
	a := runS1(true, buf, st, nd, sa)
	b := runS1(false, buf, st, nd, sb)
	w.res.Validated++
	same := a.st == b.st && a.processed == b.processed && len(a.idx) == len(b.idx)
	if same {
		for i := range a.idx {
			if a.idx[i] != b.idx[i] {
				same = false
			}
		}
	}
	if !same {
		w.cur.Set(harness, fmt.Sprintf("nd=%d state=%+v", nd, st), buf)
		w.Violate(Violation{Harness: harness, Fingerprint: "C06/kernel", What: fmt.Sprintf("stage-1 slice kernels disagree: avx512 → processed=%d state=%+v idx=%v; avx2 → processed=%d state=%+v idx=%v", a.processed, a.st, a.idx, b.processed, b.st, b.idx), Case: append([]byte(nil), buf...), Config: fmt.Sprintf("nd=%d odd=%d quote=%x pred=%d carried=%d pos=%d", nd, st.OddBackslash, st.InsideQuote, st.PseudoPred, st.Carried, st.Position)})
	}
	if len(a.idx) > 0 {
		h := newDhash()
		for _, v := range a.idx {
			h.word(uint64(v))
		}
		w.Distinct(uint64(h))
	}
}

func c06States() []simdjson.VerifS1State {
	var out []simdjson.VerifS1State
	for odd := uint64(0); odd < 2; odd++ {
		for _, q := range []uint64{0, ^uint64(0)} {
			for pred := uint64(0); pred < 2; pred++ {
				for _, car := range []uint64{0, 64} {
					pos := ^uint64(0)
					if car != 0 {
						pos = 1000
					}
					out = append(out, simdjson.VerifS1State{OddBackslash: odd, InsideQuote: q, PseudoPred: pred, Carried: car, Position: pos})
				}
			}
		}
	}
	return out
}

// c06AtDepth calls f below d stack frames of about 150 bytes each.
//
//go:noinline
func c06AtDepth(d int, pad *[14]uint64, f func()) uint64 {
	var local [14]uint64
	local[d%14] = uint64(d) + pad[(d+1)%14]
	if d == 0 {
		f()
		return local[0]
	}
	return c06AtDepth(d-1, &local, f) + local[d%14]
}

func c06Body(w *W) {
	if !hasAVX512 {
		w.Note("this CPU has no AVX-512F: only one kernel family can run; nothing compared")
		w.res.Capped = true
		w.res.States, w.res.Transitions = 1, 1
		w.Sample("no AVX-512F")
		return
	}
	c := &c06ctx{w: w, sA: &parseSession{}, sB: &parseSession{}}
	// whole-parser differential
	forEachC01Input(w, func(in, probe []byte, harness string) { c.diff(in, false, "C06-"+harness[4:]) })
	forEachMutationInput(w, func(in []byte, name string) {
		c.diff(in, false, "C06-mutation-"+name)
		c.diff(in, true, "C06-mutation-"+name)
	})
	forEachNDInput(w, func(name string, text []byte) { c.diff(text, true, "C06-nd-"+name) })

	// the same documents at every stack depth: a kernel call sits right where the goroutine
	// stack has to grow for some depths; both kernel families must still agree (arguments that
	// point into the stack have to survive the move)
	w.Note("stack-depth sweep: 3 documents (one needing two index buffers) parsed with recycled objects by both kernel families on a fresh goroutine at every call depth 0..900 (about 150 bytes of stack per level, i.e. across the 8K..128K growth steps)")
	depthDocs := [][]byte{[]byte(`{"a":[1,"x",true,null],"b":{"c":"d\n"}}`), append(append([]byte("["), bytes.Repeat([]byte(`"v",`), 900)...), `"w"]`...), []byte("{\"k\":1}\n[2,3]\n{\"z\":\"y\"}")}
	ra, rb := make([]*simdjson.ParsedJson, len(depthDocs)), make([]*simdjson.ParsedJson, len(depthDocs))
	for d := 0; d <= 900; d++ {
		w.res.States++
		if !w.Mine() || w.Expired() {
			continue
		}
		for di, doc := range depthDocs {
			nd := di == 2
			bad := ""
			for attempt := 0; attempt < 3; attempt++ {
				var ea, eb error
				var pa, pb *simdjson.ParsedJson
				var xa, xb string
				done := make(chan struct{})
				go func() {
					defer close(done)
					var pad [14]uint64
					c06AtDepth(d, &pad, func() {
						pa, ea, xa = doParse(Cfg{true, true}, doc, ra[di], nd)
						pb, eb, xb = doParse(Cfg{false, true}, doc, rb[di], nd)
					})
				}()
				<-done
				w.res.Validated++
				if pa != nil {
					ra[di] = pa
				}
				if pb != nil {
					rb[di] = pb
				}
				switch {
				case xa != "" || xb != "":
					bad = fmt.Sprintf("panic: avx512=%q avx2=%q", xa, xb)
				case ea != nil || eb != nil:
					bad = fmt.Sprintf("valid document: AVX-512 kernels err=%v, AVX2 kernels err=%v", ea, eb)
				case !sameTape(pa, pb):
					bad = "both kernel families accept but tape or string buffer differ"
				default:
					bad = ""
				}
				if bad == "" {
					break // agrees (a disagreement must repeat three times at this depth)
				}
			}
			w.res.Transitions++
			w.res.Evaluations++
			if bad != "" {
				w.Violate(Violation{Harness: "C06-stack-depth", Fingerprint: "C06/stack-depth", What: fmt.Sprintf("at call depth %d (three attempts on fresh goroutines): %s", d, bad), Case: append([]byte(nil), doc...), Config: map[bool]string{false: "Parse", true: "ParseND"}[nd]})
			}
		}
	}

	// kernel-level differential
	states := c06States()
	var sa, sb [simdjson.VerifIndexSize]uint32
	k := 5
	if w.Thorough() {
		k = 6
	}
	nc := len(c06Classes)
	w.Note(fmt.Sprintf("kernel level: find_structural_bits_in_slice vs _avx512 on (i) one 64-byte block with its last %d bytes enumerated over %d byte classes x 3 fillers, (ii) two blocks with the first %d bytes of the second enumerated x 3 first-block fillers, (iii) padded tails of every length 1..63 with the last 4 bytes enumerated; each under %d carried states x ndjson 0/1; compared: indexes written, index count, processed, carried, position and all state words", k, nc, k, len(states)))
	fillers := [][]byte{bytes.Repeat([]byte{' '}, 64), bytes.Repeat([]byte("1,"), 32), bytes.Repeat([]byte(`"a\\"b `), 11)[:64]}
	total := 1
	for i := 0; i < k; i++ {
		total *= nc
	}
	for comb := 0; comb < total; comb++ {
		w.res.States++
		if !w.Mine() || w.Expired() || w.TooManyViolations() {
			continue
		}
		var pat [8]byte
		x := comb
		for i := 0; i < k; i++ {
			pat[i] = c06Classes[x%nc]
			x /= nc
		}
		for _, f := range fillers {
			b1 := append([]byte(nil), f...)
			copy(b1[64-k:], pat[:k])
			b2 := append(append([]byte(nil), f...), f...)
			copy(b2[64:], pat[:k])
			for _, st := range states {
				for nd := uint64(0); nd < 2; nd++ {
					c.kernel(b1, st, nd, &sa, &sb, "C06-kernel-block-end")
					c.kernel(b2, st, nd, &sa, &sb, "C06-kernel-block-start")
				}
			}
		}
	}
	// padded tails
	t4 := nc * nc * nc * nc
	for n := 1; n <= 63; n++ {
		for comb := 0; comb < t4; comb++ {
			w.res.States++
			if !w.Mine() || w.Expired() || w.TooManyViolations() {
				continue
			}
			var padded [128]byte
			copy(padded[:], fillers[1])
			x := comb
			for i := 0; i < 4 && n-1-i >= 0; i++ {
				padded[n-1-i] = c06Classes[x%nc]
				x /= nc
			}
			for i := n; i < 128; i++ {
				padded[i] = 0
			}
			for si, st := range states {
				if si%2 == 1 {
					continue
				}
				for nd := uint64(0); nd < 2; nd++ {
					c.kernel(padded[:n], st, nd, &sa, &sb, "C06-kernel-tail")
				}
			}
		}
	}
	w.Sample(fmt.Sprintf("kernel sample: block %q under odd=1 quote=~0 pred=0", fillers[2]))
}

func c06Replay(v *Violation) string {
	if !hasAVX512 {
		return "OK (no AVX-512 on this CPU)"
	}
	if len(v.Harness) > 10 && v.Harness[:10] == "C06-kernel" {
		return "kernel-level case: re-run ./run.sh C06 quick (state vector is in the config field: " + v.Config + ")"
	}
	nd := v.Config == "ParseND"
	pa, ea, xa := doParse(Cfg{true, true}, v.Case, nil, nd)
	pb, eb, xb := doParse(Cfg{false, true}, v.Case, nil, nd)
	switch {
	case xa != "" || xb != "":
		return "FAIL panic " + xa + xb
	case (ea == nil) != (eb == nil):
		return fmt.Sprintf("FAIL avx512 err=%v avx2 err=%v", ea, eb)
	case ea == nil && !sameTape(pa, pb):
		return "FAIL tapes differ"
	}
	return fmt.Sprintf("OK both: err=%v", ea)
}

func init() {
	register(&check{
		prop: "C06", name: "kernel-differential", level: "model_checking",
		rule:   "Differential model checking of the two kernel families (each is the other's model). Whole parser: every input of the C01 spaces (byte strings, token sequences, alignment and flush-edge probes), the C05 mutation closure (Parse and ParseND) and the C08 line-sequence space is parsed with the AVX-512 and with the AVX2 stage-1 kernels; outcome, Tape and Strings must be identical. Kernel level (white box): both find_structural_bits_in_slice variants on enumerated block shapes (block ends, block starts after a carrying block, every padded tail length) under every carried state; all outputs compared word for word. states=enumeration nodes, transitions=inputs/blocks, traces_validated=pairs compared; distinct_nontrivial=distinct accepted tapes / index vectors.",
		assume: []string{"needs AVX-512F hardware; without it the check reports exhaustive:false and compares nothing", "kernel selection is toggled through cpuid.CPU.Disable/Enable(AVX512F), which is what findStructuralIndices consults"},
		body:   c06Body,
		replay: c06Replay,
	})
}
