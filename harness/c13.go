package main

import (
	"encoding/json"
	"fmt"
	"math"
	"strconv"
	"strings"

	simdjson "github.com/minio/simdjson-go"

	"verif/ref"
)

type seedDoc struct {
	name  string
	text  string
	nd    bool
	deser bool // the tape under edit is obtained by Serialize + Deserialize of the parsed one
}

var editSeeds = []seedDoc{
	{"mixed-object", `{"a":1,"b":"x","c":[1,2,3],"d":{"e":true,"f":null}}`, false, false},
	{"mixed-array", `[1,"a",[2,3],{"x":1},true,null]`, false, false},
	{"nested-containers", `{"k":[{"a":1.5,"b":"s"},[],{}],"u":18446744073709551615,"s":"\u00e9"}`, false, false},
	{"deep-arrays", `[[[1,2],[3]],[[4]]]`, false, false},
	{"dup-keys", `{"a":"first","a":"dup","":0}`, false, false},
	{"ndjson", "{\"a\":1}\n[true,false]\n{\"b\":{\"c\":\"d\"}}", true, false},
	{"scalars", `[-1,2.5e10,"str",false,123456789012345678901234567890,18446744073709551615]`, false, false},
	{"chain", `{"only":{"deep":{"deeper":[null,{"x":"y"}]}}}`, false, false},
	{"deserialized-mixed", `{"a":1,"b":"x","c":[1,2,3],"d":{"e":true,"f":null}}`, false, true},
	{"deserialized-numbers-only", `[1,2.5,[3],{"n":4}]`, false, true},
	// equal strings (values and keys) share their bytes after a serialize round trip; each is
	// long enough for every replacement value to fit into it
	{"deserialized-duplicate-strings", `{"europe-west-region-1-zone-a-rack-0042-slot-7":"europe-west-region-1-zone-a-rack-0042-slot-7","b":["europe-west-region-1-zone-a-rack-0042-slot-7","b","zz"],"zz":"b"}`, false, true},
}

// lookalikeSeeds: numbers whose 64-bit value word, read as a tape entry, looks like a tag
// (top byte 'N' = NOP, and '{', '[', '"', '}'), each directly in front
// of a member that edits and deletions address: code that inspects the word before a position
// cannot tell them from tags.
func lookalikeSeeds() []seedDoc {
	num := func(t byte, float bool, k int) string {
		if float {
			return strconv.FormatFloat(math.Float64frombits(uint64(t)<<56|0x0010000000000001), 'g', -1, 64)
		}
		return strconv.FormatUint(uint64(t)<<56|uint64(5+k), 10)
	}
	return []seedDoc{
		{"lookalike-nop-object", fmt.Sprintf(`{"a":%s,"b":0,"c":%s,"d":"v","e":1}`, num('N', true, 0), num('N', false, 1)), false, false},
		{"lookalike-nop-array", fmt.Sprintf(`[%s,0,%s,"v",[%s,1]]`, num('N', false, 0), num('N', true, 1), num('N', true, 2)), false, false},
		{"lookalike-tags-object", fmt.Sprintf(`{"a":%s,"b":0,"c":%s,"d":{"x":%s,"y":2},"e":%s}`, num('{', true, 0), num('[', false, 1), num('"', true, 2), num('}', false, 3)), false, false},
	}
}

func init() { editSeeds = append(editSeeds, lookalikeSeeds()...) }

type histNode struct {
	pj    *simdjson.ParsedJson
	docs  []*ref.Node
	hist  []editOp
	depth int
}

type histParams struct {
	prop     string
	maxDepth int
	ops      func(docs []*ref.Node, depth int) []editOp
	// check is applied to every reached state
	check func(pj *simdjson.ParsedJson, docs []*ref.Node) (what, api string)
	seeds []seedDoc
}

func histText(seed seedDoc, c Cfg, hist []editOp) string {
	var sb strings.Builder
	fmt.Fprintf(&sb, "seed %s (%s) %q", seed.name, c, seed.text)
	for _, o := range hist {
		sb.WriteString("; ")
		sb.WriteString(o.String())
	}
	return sb.String()
}

type histCase struct {
	Seed string   `json:"seed"`
	Ops  []editOp `json:"-"`
	Enc  []opEnc  `json:"ops"`
}

type opEnc struct {
	Kind   int    `json:"kind"`
	Path   []int  `json:"path"`
	Route  int    `json:"route"`
	Subset uint32 `json:"subset"`
	Form   int    `json:"form"`
}

func encodeHist(seed string, hist []editOp) []byte {
	hc := histCase{Seed: seed}
	for _, o := range hist {
		hc.Enc = append(hc.Enc, opEnc{o.kind, []int(o.p), o.route, o.subset, o.form})
	}
	b, _ := json.Marshal(hc)
	return b
}

func decodeHist(b []byte) (string, []editOp, error) {
	var hc histCase
	if err := json.Unmarshal(b, &hc); err != nil {
		return "", nil, err
	}
	var ops []editOp
	for _, e := range hc.Enc {
		ops = append(ops, editOp{e.Kind, vpath(e.Path), e.Route, e.Subset, e.Form})
	}
	return hc.Seed, ops, nil
}

func fpOp(o editOp) string {
	if o.kind < nSetOps {
		return setNames[o.kind]
	}
	if o.kind == opObjDelete {
		return fmt.Sprintf("Object.DeleteElems/form%d", o.form)
	}
	return "Array.DeleteElems"
}

// stepHistory applies one op to a clone of the state and judges it. It returns the
// successor (nil if the op was disallowed or failed) and a violation description.
func stepHistory(st *histNode, o editOp, hp *histParams) (next *histNode, what, fp string) {
	pj := st.pj.Clone(nil)
	before := stateKey(pj)
	newDocs, allowed := applyModel(st.docs, o)
	held := holdHandles(pj, st.docs, o.p)
	apiErr, protocol := applyReal(pj, st.docs, o)
	if protocol == "" {
		// handles obtained before the call (an Elements of the enclosing object, an element
		// found by key) are stale now; reading through them may return anything or an error,
		// but must not panic
		if s := held(); s != "" {
			protocol = fmt.Sprintf("after %v: %s", o, s)
		}
	}
	hist := append(append([]editOp(nil), st.hist...), o)
	if protocol != "" {
		return nil, protocol, "protocol/" + fpOp(o)
	}
	if !allowed {
		if apiErr == nil {
			return nil, fmt.Sprintf("%v is not allowed on a %v value but returned no error", o, kindName(nodeAt(st.docs, o.p).K)), "gate-missing/" + fpOp(o)
		}
		if stateKey(pj) != before {
			return nil, fmt.Sprintf("%v returned an error (%v) but changed the tape", o, apiErr), "gate-mutates/" + fpOp(o)
		}
		return nil, "", ""
	}
	if apiErr != nil {
		return nil, fmt.Sprintf("%v is allowed but returned: %v", o, apiErr), "allowed-error/" + fpOp(o)
	}
	if what, api := hp.check(pj, newDocs); what != "" {
		return nil, fmt.Sprintf("after %v: %s: %s", o, api, what), "readback/" + fpOp(o) + "/" + api
	}
	return &histNode{pj: pj, docs: newDocs, hist: hist, depth: st.depth + 1}, "", ""
}

// holdHandles takes handles on the value at p the way a caller would before an edit made
// through another handle: the Elements of the enclosing object and the element FindKey
// returns (objects), the element iterator (arrays). The returned function reads through them.
func holdHandles(pj *simdjson.ParsedJson, docs []*ref.Node, p vpath) func() string {
	none := func() string { return "" }
	if len(p) < 2 {
		return none
	}
	parentPath, idx := p[:len(p)-1], p[len(p)-1]
	parent := nodeAt(docs, parentPath)
	pit, err := navigate(pj, parentPath, 0)
	if err != nil {
		return none
	}
	var iters []*simdjson.Iter
	var els *simdjson.Elements
	if parent.K == ref.KObj {
		if obj, oerr := pit.Object(nil); oerr == nil {
			if e, perr := obj.Parse(nil); perr == nil && idx < len(e.Elements) {
				els = e
				iters = append(iters, &e.Elements[idx].Iter)
			}
		}
		if obj, oerr := pit.Object(nil); oerr == nil {
			if el := obj.FindKey(string(parent.Keys[idx]), nil); el != nil {
				iters = append(iters, &el.Iter)
			}
		}
	} else if it, nerr := navigate(pj, p, 1); nerr == nil {
		iters = append(iters, it)
	}
	return func() (what string) {
		defer func() {
			if r := recover(); r != nil {
				what = fmt.Sprintf("PANIC when reading through a handle obtained before the call: %v", r)
			}
		}()
		for _, it := range iters {
			c := *it
			c.String()
			c = *it
			c.StringBytes()
			c = *it
			c.StringCvt()
			c = *it
			c.Int()
			c = *it
			c.Uint()
			c = *it
			c.Float()
			c = *it
			c.Bool()
			c = *it
			c.Interface()
			c = *it
			c.MarshalJSON()
		}
		if els != nil {
			els.MarshalJSON()
		}
		return ""
	}
}

func kindName(k ref.Kind) string {
	return [...]string{"null", "true", "false", "string", "int", "uint", "float", "array", "object"}[k]
}

// exploreHistories is a breadth-first search over operation histories on the real tape,
// deduplicated on the exact bytes of (Tape, Strings).
func exploreHistories(w *W, hp *histParams) {
	for _, seed := range hp.seeds {
		for _, c := range []Cfg{{hasAVX512, true}, {hasAVX512, false}} {
			text := []byte(seed.text)
			var docs []*ref.Node
			if seed.nd {
				docs, _ = ref.ParseND(text)
			} else {
				d, _ := ref.Parse(text)
				docs = []*ref.Node{d}
			}
			root, err, p := doParse(c, text, nil, seed.nd)
			if err != nil || p != "" {
				w.Violate(Violation{Fingerprint: hp.prop + "/seed-rejected", What: fmt.Sprint("seed document rejected: ", err, p), Case: text, Config: c.String()})
				continue
			}
			if seed.deser {
				rt, what := roundTrip(root, simdjson.CompressNone, simdjson.CompressDefault)
				if what != "" {
					w.Violate(Violation{Fingerprint: hp.prop + "/seed-roundtrip", What: what, Case: text, Config: c.String()})
					continue
				}
				root = rt
			}
			start := &histNode{pj: root, docs: docs}
			if w.Shard == 0 {
				w.res.States++
				if what, api := hp.check(root, docs); what != "" {
					w.Violate(Violation{Harness: hp.prop + "-history", Fingerprint: hp.prop + "/initial/" + api, What: api + ": " + what, Case: encodeHist(seed.name, nil), CaseText: histText(seed, c, nil), Config: c.String()})
				}
			}
			seen := map[string]bool{stateKey(root): true}
			frontier := []*histNode{}
			// depth 1 is dealt to shards op by op
			for _, o := range hp.ops(docs, 0) {
				if !w.Mine() {
					continue
				}
				frontier = append(frontier, &histNode{pj: start.pj, docs: start.docs, hist: []editOp{o}, depth: -1})
			}
			queue := []*histNode{}
			expand := func(st *histNode, o editOp) {
				w.res.Transitions++
				w.res.Evaluations++
				w.cur.Set(hp.prop+"-history", c.String(), encodeHist(seed.name, append(append([]editOp(nil), st.hist...), o)))
				next, what, fp := stepHistory(st, o, hp)
				w.res.Validated++
				if what != "" {
					h := append(append([]editOp(nil), st.hist...), o)
					w.Violate(Violation{Harness: hp.prop + "-history", Fingerprint: hp.prop + "/" + fp, What: what, Case: encodeHist(seed.name, h), CaseText: histText(seed, c, h), Config: c.String()})
					return
				}
				if next == nil {
					w.Count("disallowed_ops_checked", 1)
					return
				}
				k := stateKey(next.pj)
				w.Distinct(hashBytes([]byte(k)))
				if seen[k] {
					return
				}
				seen[k] = true
				w.res.States++
				w.Max("max_depth", int64(next.depth))
				if next.depth < hp.maxDepth {
					queue = append(queue, next)
				}
			}
			for _, f := range frontier {
				expand(&histNode{pj: start.pj, docs: start.docs}, f.hist[0])
			}
			for len(queue) > 0 {
				if w.Expired() || w.TooManyViolations() {
					return
				}
				st := queue[0]
				queue = queue[1:]
				for _, o := range hp.ops(st.docs, st.depth) {
					expand(st, o)
				}
			}
		}
	}
}

func replayHistory(v *Violation, hp *histParams) string {
	seedName, ops, err := decodeHist(v.Case)
	if err != nil {
		return "cannot decode history: " + err.Error()
	}
	var seed *seedDoc
	for i := range hp.seeds {
		if hp.seeds[i].name == seedName {
			seed = &hp.seeds[i]
		}
	}
	if seed == nil {
		return "unknown seed " + seedName
	}
	c := parseCfg(v.Config)
	text := []byte(seed.text)
	var docs []*ref.Node
	if seed.nd {
		docs, _ = ref.ParseND(text)
	} else {
		d, _ := ref.Parse(text)
		docs = []*ref.Node{d}
	}
	pj, perr, p := doParse(c, text, nil, seed.nd)
	if perr != nil || p != "" {
		return fmt.Sprint("FAIL seed rejected ", perr, p)
	}
	if seed.deser {
		rt, what := roundTrip(pj, simdjson.CompressNone, simdjson.CompressDefault)
		if what != "" {
			return "FAIL " + what
		}
		pj = rt
	}
	st := &histNode{pj: pj, docs: docs}
	if what, api := hp.check(pj, docs); what != "" {
		return "FAIL initial state: " + api + ": " + what
	}
	for _, o := range ops {
		next, what, _ := stepHistory(st, o, hp)
		if what != "" {
			return "FAIL " + what
		}
		if next == nil {
			return "OK (op disallowed and rejected cleanly)"
		}
		st = next
	}
	return "OK history replays without disagreement: " + histText(*seed, c, ops)
}

// ---- C13 ----

func c13Ops(docs []*ref.Node, depth int) []editOp {
	var ops []editOp
	for _, p := range valuePositions(docs) {
		for k := 0; k < nSetOps; k++ {
			for r := 0; r < nRoutes; r++ {
				ops = append(ops, editOp{kind: k, p: p, route: r})
			}
		}
	}
	return ops
}

func c13Params(w *W) *histParams {
	d := 2
	if w != nil && w.Thorough() {
		d = 3
	}
	return &histParams{prop: "C13", maxDepth: d, ops: c13Ops, seeds: editSeeds,
		check: func(pj *simdjson.ParsedJson, docs []*ref.Node) (string, string) {
			return stateAgreement(pj, docs, simdjson.CompressNone)
		}}
}

func c13Body(w *W) {
	hp := c13Params(w)
	w.Note(fmt.Sprintf("BFS over Set* histories to depth %d on %d seed documents x {copy,no-copy}: every value position x 9 calls x 3 navigation routes; states deduplicated on exact (Tape,Strings) bytes", hp.maxDepth, len(hp.seeds)))
	exploreHistories(w, hp)
	c13TopLevelNull(w)
	c13EditThroughLookup(w)
	w.Sample(histText(editSeeds[0], Cfg{hasAVX512, true}, []editOp{{kind: opSetNull, p: vpath{0, 1}, route: 0}, {kind: opSetStrEsc, p: vpath{0, 0}, route: 2}}))
}

// c13TopLevelNull: SetNull addressed to a document's top-level container (the tape then
// reads root, null, NOP run, closing root). The reference walkers do not model a scalar
// document, so the oracle is differential: every other document unchanged, this one reads
// null through Advance+MarshalJSON, and a serialize round trip in every mode reads the same.
// c13EditThroughLookup: Object.Parse, then Set* through the element Elements.Lookup returns
// (a pointer into the Elements), then reading through the SAME Elements: the member read by
// index and Elements.MarshalJSON must show the new value (the usual "find it, change it,
// write the object out" sequence).
func c13EditThroughLookup(w *W) {
	w.Note("edits through Elements.Lookup: for every object with unique keys of every seed, every member x 9 Set* calls: Object.Parse; Lookup(key).Iter.Set*(...); the same Elements read by index and marshalled must show the new value")
	for _, seed := range editSeeds {
		if seed.deser {
			continue
		}
		for _, c := range strModes() {
			text := []byte(seed.text)
			var docs []*ref.Node
			if seed.nd {
				docs, _ = ref.ParseND(text)
			} else {
				d, _ := ref.Parse(text)
				docs = []*ref.Node{d}
			}
			base, err, p := doParse(c, append([]byte(nil), text...), nil, seed.nd)
			if err != nil || p != "" {
				continue
			}
			for _, cp := range containerPositions(docs) {
				n := nodeAt(docs, cp)
				if n.K != ref.KObj || !uniqueKeys(n) {
					continue
				}
				for idx := range n.Elems {
					for kind := 0; kind < nSetOps; kind++ {
						w.res.States++
						if !w.Mine() {
							continue
						}
						o := editOp{kind: kind, p: append(append(vpath(nil), cp...), idx), route: (idx + kind) % 3}
						if !setAllowed(kind, n.Elems[idx].K) {
							continue
						}
						w.res.Transitions++
						w.res.Evaluations++
						w.res.Validated++
						bad := func() (bad string) {
							defer func() {
								if r := recover(); r != nil {
									bad = fmt.Sprintf("PANIC: %v", r)
								}
							}()
							pj := base.Clone(nil)
							it, nerr := navigate(pj, cp, 0)
							if nerr != nil {
								return "navigate: " + nerr.Error()
							}
							obj, oerr := it.Object(nil)
							if oerr != nil {
								return "Object(): " + oerr.Error()
							}
							els, perr := obj.Parse(nil)
							if perr != nil {
								return "Object.Parse: " + perr.Error()
							}
							el := els.Lookup(string(n.Keys[idx]))
							if el == nil {
								return "Lookup returned nil for an existing member"
							}
							if serr := applySet(&el.Iter, o); serr != nil {
								return "Set* through the looked-up element failed: " + serr.Error()
							}
							want := setValueNodeOp(o)
							wk := &walker{budget: 1 << 16}
							got, rerr := wk.value(&els.Elements[idx].Iter)
							if rerr != nil || got.Render() != want.Render() {
								return fmt.Sprintf("member %q read through the same Elements after the edit: %v (%v), new value is %s", n.Keys[idx], got, rerr, want.Render())
							}
							nn := n.Clone()
							nn.Elems[idx] = want
							out, merr := els.MarshalJSON()
							back, ok := parseAnyValue(out)
							if merr != nil || !ok || !ref.NumericEqual(nn, back) {
								return fmt.Sprintf("Elements.MarshalJSON after the edit gives %s (%v), object is %s", clip(string(out)), merr, clip(nn.RenderNumeric()))
							}
							return ""
						}()
						if bad != "" {
							w.Violate(Violation{Harness: "C13-edit-through-lookup", Fingerprint: "C13/edit-through-lookup/" + setNames[kind], What: fmt.Sprintf("%v through Elements.Lookup(%q): %s", o, n.Keys[idx], bad), Case: []byte(seed.name), CaseText: histText(seed, c, []editOp{o}), Config: c.String()})
						}
					}
				}
			}
		}
	}
}

func c13AdvanceIntoWalk(pj *simdjson.ParsedJson) (what string) {
	defer func() {
		if r := recover(); r != nil {
			what = fmt.Sprintf("PANIC in an AdvanceInto walk: %v", r)
		}
	}()
	walk := func(it simdjson.Iter, name string) string {
		for n := 0; ; n++ {
			if n > 4*len(pj.Tape)+8 {
				return name + ": AdvanceInto walk does not terminate"
			}
			if it.AdvanceInto() == simdjson.TagEnd {
				return ""
			}
		}
	}
	if s := walk(pj.Iter(), "whole tape"); s != "" {
		return s
	}
	top := pj.Iter()
	for d := 0; top.Advance() == simdjson.TypeRoot; d++ {
		_, r, err := top.Root(nil)
		if err != nil {
			return fmt.Sprintf("Root() of document %d: %v", d, err)
		}
		if s := walk(*r, fmt.Sprintf("iterator from Root() of document %d", d)); s != "" {
			return s
		}
	}
	return ""
}

func c13TopLevelNull(w *W) {
	w.Note("top-level containers: SetNull on the top-level container of every document of every seed (each NDJSON line in turn), read back through Advance + MarshalJSON per root and through a serialize round trip in all 4 modes")
	for _, seed := range editSeeds {
		for _, c := range strModes() {
			text := []byte(seed.text)
			ndocs := 1
			if seed.nd {
				d, _ := ref.ParseND(text)
				ndocs = len(d)
			}
			for di := 0; di < ndocs; di++ {
				w.res.States++
				if !w.Mine() {
					continue
				}
				pj, err, p := doParse(c, append([]byte(nil), text...), nil, seed.nd)
				if err != nil || p != "" {
					continue
				}
				var docs []*ref.Node
				if seed.nd {
					docs, _ = ref.ParseND(text)
				} else {
					d, _ := ref.Parse(text)
					docs = []*ref.Node{d}
				}
				it, nerr := navigate(pj, vpath{di}, 0)
				w.res.Transitions++
				w.res.Evaluations++
				w.res.Validated++
				bad := ""
				after := ""
				if nerr != nil {
					bad = "cannot reach the top-level container: " + nerr.Error()
				} else if serr := it.SetNull(); serr != nil {
					bad = "SetNull on the top-level container: " + serr.Error()
				} else {
					after = topLevelRender(pj)
					// a plain AdvanceInto-until-TagEnd walk, on the whole tape and on the iterator
					// Root() hands out for every document (whose tape view ends where the gap ends)
					bad = c13AdvanceIntoWalk(pj)
					root := pj.Iter()
					out, merr := root.MarshalJSON()
					lines := strings.Split(strings.TrimRight(string(out), "\n"), "\n")
					if bad != "" {
						// keep the walk's complaint
					} else if merr != nil || len(lines) != len(docs) {
						bad = fmt.Sprintf("MarshalJSON after SetNull on the top-level container of document %d: %s (%v), want %d documents", di, clip(string(out)), merr, len(docs))
					} else {
						for k, l := range lines {
							if k == di {
								if l != "null" {
									bad = fmt.Sprintf("document %d marshals as %s after SetNull on its top-level container", k, clip(l))
								}
								continue
							}
							got, ok := parseAnyValue([]byte(l))
							if !ok || !ref.NumericEqual(docs[k], got) {
								bad = fmt.Sprintf("document %d marshals as %s after SetNull on the top-level container of document %d", k, clip(l), di)
							}
						}
					}
					if bad == "" {
						for m := 0; m < 4 && bad == ""; m++ {
							rt, what := roundTrip(pj, simdjson.CompressMode(m), simdjson.CompressMode((m+1)%4))
							if what != "" {
								bad = "serialize round trip (" + modeNames[m] + "): " + what
							} else if got := topLevelRender(rt); got != after {
								bad = fmt.Sprintf("after a serialize round trip (%s) the documents read %s, before it %s", modeNames[m], clip(got), clip(after))
							}
						}
					}
				}
				if bad != "" {
					w.Violate(Violation{Harness: "C13-top-level-null", Fingerprint: "C13/top-level-null", What: bad, Case: []byte(fmt.Sprintf("%s#%d", seed.name, di)), CaseText: fmt.Sprintf("seed %s, SetNull on the top-level container of document %d", seed.name, di), Config: c.String()})
				}
			}
		}
	}
}

func init() {
	register(&check{
		prop: "C13", name: "set-histories", level: "model_checking",
		rule:   "Explicit-state breadth-first search over histories of Set* calls on the real tape (successor = Clone + one real call), from 8 seed documents in both string modes: every value position x {SetNull, SetBool t/f, SetInt, SetUInt, SetFloat, SetString empty/escaped, SetStringBytes 40B} x 3 navigation routes, to the stated depth, deduplicated on the exact (Tape, Strings) bytes. In every reached state all traversal walkers, Interface, FindKey/FindPath, MarshalJSON (root, every inner value, Array, Elements) and a serialize round trip must equal the edit model (frame condition: everything else unchanged); a call the documentation disallows must return an error and leave the tape byte-identical. states=distinct tapes reached, transitions=real calls applied, traces_validated=transitions judged against the model.",
		assume: []string{"edit model in harness/edit.go (type gates from the doc comments of the Set* methods)", "roots and keys are not Set* targets (outside the property's alphabet)"},
		body:   c13Body,
		replay: func(v *Violation) string { return replayHistory(v, c13Params(nil)) },
	})
}
