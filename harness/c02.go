package main

import (
	"fmt"
	"strings"

	simdjson "github.com/minio/simdjson-go"

	"verif/ref"
)

type expect struct {
	exact, sorted, numeric string
	docs                   []*ref.Node
}

func mkExpect(docs []*ref.Node) *expect {
	return &expect{exact: renderDocs(docs, renderExact), sorted: renderDocs(docs, renderSorted), numeric: renderDocs(docs, renderNum), docs: docs}
}

// compareWalkers runs every API walker on pj and returns a description of the first
// disagreement with the expected documents ("" if all agree) and the walker's name.
func compareWalkers(pj *simdjson.ParsedJson, ex *expect, withMarshal bool) (what, walker string) {
	for _, o := range walkCombos {
		docs, err := walkDoc(pj, o)
		if err != nil {
			return err.Error(), o.String()
		}
		if got := renderDocs(docs, renderExact); got != ex.exact {
			return fmt.Sprintf("exposed %s, document is %s", clip(got), clip(ex.exact)), o.String()
		}
	}
	docs, err := walkFlat(pj)
	if err != nil {
		return err.Error(), "AdvanceInto flat walk"
	}
	if got := renderDocs(docs, renderExact); got != ex.exact {
		return fmt.Sprintf("exposed %s, document is %s", clip(got), clip(ex.exact)), "AdvanceInto flat walk"
	}
	if tapeDepth(pj) <= 3000 { // Interface() needs memory quadratic in the nesting depth
		docs, err = walkInterface(pj)
		if err != nil {
			return err.Error(), "Iter.Interface"
		}
		if got := renderDocs(docs, renderSorted); got != ex.sorted {
			return fmt.Sprintf("exposed %s, document is %s", clip(got), clip(ex.sorted)), "Iter.Interface"
		}
	}
	if withMarshal {
		if what := checkMarshalRoot(pj, ex); what != "" {
			return what, "Iter.MarshalJSON"
		}
	}
	return "", ""
}

func clip(s string) string {
	if len(s) > 160 {
		return s[:80] + "…" + s[len(s)-70:]
	}
	return s
}

// checkMarshalRoot marshals from the root iterator and compares the denoted document.
func checkMarshalRoot(pj *simdjson.ParsedJson, ex *expect) (what string) {
	defer func() {
		if r := recover(); r != nil {
			what = fmt.Sprintf("PANIC in MarshalJSON: %v", r)
		}
	}()
	it := pj.Iter()
	out, err := it.MarshalJSON()
	if err != nil {
		return "MarshalJSON error: " + err.Error()
	}
	docs, v := ref.ParseND(out)
	if len(ex.docs) == 1 {
		var d *ref.Node
		d, v = ref.Parse(out)
		docs = []*ref.Node{d}
	}
	if v == ref.Invalid {
		return fmt.Sprintf("MarshalJSON output is not valid JSON: %s", clip(string(out)))
	}
	if !ref.NumericEqualDocs(ex.docs, docs) {
		return fmt.Sprintf("MarshalJSON denotes %s, document is %s", clip(renderDocs(docs, renderNum)), clip(ex.numeric))
	}
	return ""
}

// docCheck parses text under every config and applies fn to each accepted result.
func forEachCfgParse(w *W, harness string, text []byte, nd bool, fn func(c Cfg, pj *simdjson.ParsedJson) (what, fp string)) {
	for _, c := range allCfgs() {
		w.cur.Set(harness, c.String(), text)
		pj, err, panicked := doParse(c, text, nil, nd)
		w.res.Validated++
		if panicked != "" {
			w.Violate(Violation{Harness: harness, Fingerprint: w.Prop + "/panic", What: "panic: " + panicked, Case: append([]byte(nil), text...), Config: c.String()})
			continue
		}
		if err != nil {
			w.Violate(Violation{Harness: harness, Fingerprint: w.Prop + "/rejected-valid", What: "valid document rejected: " + err.Error(), Case: append([]byte(nil), text...), Config: c.String()})
			continue
		}
		if what, fp := fn(c, pj); what != "" {
			w.Violate(Violation{Harness: harness, Fingerprint: w.Prop + "/" + fp, What: what, Case: append([]byte(nil), text...), Config: c.String()})
		}
	}
}

func c02Doc(w *W, harness string, text []byte, nd bool) {
	var docs []*ref.Node
	var v ref.Verdict
	if nd {
		docs, v = ref.ParseND(text)
	} else {
		var d *ref.Node
		d, v = ref.Parse(text)
		docs = []*ref.Node{d}
	}
	if v != ref.Valid {
		w.Fatal("harness generated a document the model does not accept: %q", clip(string(text)))
	}
	ex := mkExpect(docs)
	w.res.Evaluations++
	w.Distinct(hashBytes([]byte(ex.exact)))
	forEachCfgParse(w, harness, text, nd, func(c Cfg, pj *simdjson.ParsedJson) (string, string) {
		what, walker := compareWalkers(pj, ex, false)
		if what != "" {
			return walker + ": " + what, "walker/" + walker
		}
		return "", ""
	})
}

func c02Space(w *W) *docSpace {
	ds := &docSpace{leaves: stdLeaves(), deepLeaves: smallLeaves(), keys: []string{"a", "b", ""}, maxNodes: 4}
	if w.Thorough() {
		ds.maxNodes = 5
	}
	return ds
}

// forEachStdDoc enumerates the shared document space (abstract trees x layouts, depth
// ladder, boundary ladders) and hands each text to fn. Used by C02, C10, C12, C17.
func forEachStdDoc(w *W, fn func(name string, text []byte)) {
	ds := c02Space(w)
	nTrees := 0
	var last []byte
	ds.each(func(t *ref.Node) {
		nTrees++
		w.res.States++
		if !w.Mine() || w.Expired() || w.TooManyViolations() {
			return
		}
		for l := 0; l < nLayouts; l++ {
			text := renderLayout(t, l)
			w.res.Transitions++
			fn("tree/"+layoutNames[l], text)
			last = text
		}
	})
	w.Note(fmt.Sprintf("abstract documents: all %d trees with <= %d nodes (8 scalar kinds to depth 1, 3 below; keys {a,b,\"\"} incl. duplicates) x %d layouts", nTrees, ds.maxNodes, nLayouts))
	w.Sample(fmt.Sprintf("tree sample: %q", last))

	// strings of every length 0..70 whose LAST character is an escape (key and value)
	w.Note("string tails: for every length 0..70 a key and a value ending in a \\u escape, a two-character escape and a surrogate pair (the decoder's end-of-window branches)")
	tail := []byte("abcdefghijklmnopqrstuvwxyzABCDEFGHIJKLMNOPQRSTUVWXYZ0123456789abcdefghijklmnopqrstuvwxyz")
	for l := 0; l <= 70; l++ {
		w.res.States++
		if !w.Mine() || w.Expired() || w.TooManyViolations() {
			continue
		}
		for _, esc := range []string{`\u00e9`, `\n`, `\ud83d\ude00`, `\u0041`} {
			text := []byte(`{"` + string(tail[:l]) + esc + `":["` + string(tail[:l]) + esc + `"]}`)
			w.res.Transitions++
			fn("string-tail-escape", text)
		}
	}
	// string buffer growth: the buffer starts at max(128, len/10) bytes and grows by doubling or,
	// when one string needs more than that, to fit; what it held before has to survive either way
	w.Note("string buffer growth: 1, 3 or 24 short strings followed by a string of every length 0..60 and every 7th length up to 1500 (plain, and with an escape so that it is copied in both string modes), as last value, as last key, and followed by more short strings; plus 2..400 twelve-byte strings (doubling only)")
	long := strings.Repeat("Lorem ipsum dolor sit amet, consectetur adipiscing elit. ", 30)
	for L := 0; L <= 1500; L++ {
		if L > 60 && L%7 != 0 {
			continue
		}
		w.res.States++
		if !w.Mine() || w.Expired() || w.TooManyViolations() {
			continue
		}
		for _, nshort := range []int{1, 3, 24} {
			for _, esc := range []string{"", `\n`, `\u00e9`} {
				var sb strings.Builder
				sb.WriteString("{")
				for i := 0; i < nshort; i++ {
					fmt.Fprintf(&sb, `"k%d":"v%d",`, i, i*i)
				}
				body := esc + long[:L]
				switch (L + nshort) % 3 {
				case 0:
					fmt.Fprintf(&sb, `"body":"%s"}`, body)
				case 1:
					fmt.Fprintf(&sb, `"%s":"tail"}`, body)
				default:
					fmt.Fprintf(&sb, `"body":"%s","after":"x\ty","z":["%s"]}`, body, esc)
				}
				w.res.Transitions++
				fn("string-buffer-growth", []byte(sb.String()))
			}
		}
	}
	for n := 2; n <= 400; n += 1 + n/16 {
		w.res.States++
		if !w.Mine() || w.Expired() || w.TooManyViolations() {
			continue
		}
		var sb strings.Builder
		sb.WriteString("[")
		for i := 0; i < n; i++ {
			fmt.Fprintf(&sb, `"s\t%08d",`, i)
		}
		sb.WriteString(`"end"]`)
		w.res.Transitions++
		fn("string-buffer-growth", []byte(sb.String()))
	}
	var depths []int
	for d := 1; d <= 600; d++ {
		depths = append(depths, d)
	}
	depths = append(depths, 1000, 10000)
	if w.Thorough() {
		depths = append(depths, 100000)
	}
	w.Note("depth ladder: nested arrays / objects / alternating, every depth 1..600 plus 1000, 10000 (thorough: 100000)")
	depthLadder(depths, func(d ladderDoc) {
		w.res.States++
		if !w.Mine() || w.Expired() || w.TooManyViolations() {
			return
		}
		w.res.Transitions++
		fn(d.name, d.text)
	})
	_, flushAt, _ := simdjson.VerifGeometry()
	ranges := [][2]int{{flushAt - 40, flushAt + 90}, {2*flushAt - 40, 2*flushAt + 190}}
	if w.Thorough() {
		ranges = append(ranges, [2]int{16*flushAt - 20, 16*flushAt + 1100}, [2]int{17 * flushAt, 17*flushAt + 1200})
	} else {
		ranges = append(ranges, [2]int{16*flushAt + 500, 16*flushAt + 700})
	}
	w.Note(fmt.Sprintf("boundary ladder: every token kind of a 40-structural suffix on every index around the flush of buffers 1, 2 and 16/17 (ring wrap); flush threshold read live = %d; ranges %v", flushAt, ranges))
	for _, r := range ranges {
		boundaryLadder(r[0], r[1], func(d ladderDoc) {
			w.res.States++
			if !w.Mine() || w.Expired() || w.TooManyViolations() {
				return
			}
			w.res.Transitions++
			fn(d.name, d.text)
			last = d.text
		})
	}
	w.Sample(fmt.Sprintf("boundary sample (len %d): %q…%q", len(last), last[:16], last[len(last)-40:]))
}

func c02Body(w *W) {
	forEachStdDoc(w, func(name string, text []byte) {
		c02Doc(w, "C02-"+name, text, false)
	})
	// second pass: one ParsedJson reused for every document (both string modes), read
	// through walkers whose destinations are long-lived too
	w.Note("reuse pass: every tree (compact and escaped-spelling layouts) parsed into ONE reused ParsedJson per string mode and read through walkers that reuse their Root/Object/Array/Elements destinations across documents")
	sess := map[bool]*parseSession{true: {}, false: {}}
	ds := c02Space(w)
	// one string mode after the other, so that the long-lived destinations stay bound to the
	// same reused ParsedJson from one document to the next
	for _, cpMode := range []bool{false, true} {
		ds.each(func(t *ref.Node) {
			w.res.States++
			if !w.Mine() || w.Expired() || w.TooManyViolations() {
				return
			}
			for _, l := range []int{0, 1} {
				text := renderLayout(t, l)
				d, v := ref.Parse(text)
				if v != ref.Valid {
					continue
				}
				ex := mkExpect([]*ref.Node{d})
				for _, cp := range []bool{cpMode} {
					c := Cfg{hasAVX512, cp}
					w.res.Transitions++
					w.res.Evaluations++
					w.cur.Set("C02-reuse-pass", c.String(), text)
					// private copy: in no-copy mode the tape points into the input
					pj, err, p := sess[cp].parse(c, append([]byte(nil), text...), false)
					w.res.Validated++
					if err != nil || p != "" {
						w.Violate(Violation{Harness: "C02-reuse-pass", Fingerprint: "C02/reuse/rejected", What: fmt.Sprint("valid document rejected with a reused object: ", err, p), Case: append([]byte(nil), text...), Config: c.String()})
						continue
					}
					for _, o := range walkCombos {
						if !o.reuseDst {
							continue
						}
						docs, werr := walkDoc(pj, o)
						got := ""
						if werr == nil {
							got = renderDocs(docs, renderExact)
						}
						if werr != nil || got != ex.exact {
							w.Violate(Violation{Harness: "C02-reuse-pass", Fingerprint: "C02/reuse/walker", What: fmt.Sprintf("%v: exposed %s (%v), document is %s (the document before it in this object was different)", o, clip(got), werr, clip(ex.exact)), Case: append([]byte(nil), text...), Config: c.String()})
							break
						}
					}
					if !cp && l == 0 {
						// once more without any option into the object just used in no-copy mode;
						// strings are copied by default, so the input may be overwritten before reading
						pj, err, p := sess[cp].parseDefaultScribbled(c.AVX512, text)
						w.res.Validated++
						got := ""
						var werr error
						if err == nil && p == "" {
							var docs []*ref.Node
							if docs, werr = walkDoc(pj, walkCombos[4]); werr == nil {
								got = renderDocs(docs, renderExact)
							}
						}
						if err != nil || p != "" || werr != nil || got != ex.exact {
							w.Violate(Violation{Harness: "C02-reuse-pass", Fingerprint: "C02/reuse/default-after-nocopy", What: fmt.Sprintf("parsed without options into the object last used in no-copy mode, input overwritten afterwards: exposed %s (%v %v %v), document is %s", clip(got), err, p, werr, clip(ex.exact)), Case: append([]byte(nil), text...), Config: c.String()})
						}
					}
				}
			}
		})
	}
}

func c02Replay(v *Violation) string {
	c := parseCfg(v.Config)
	d, vd := ref.Parse(v.Case)
	if vd != ref.Valid {
		return "OK (model does not consider the case a valid document)"
	}
	ex := mkExpect([]*ref.Node{d})
	pj, err, p := doParse(c, v.Case, nil, false)
	if p != "" {
		return "FAIL panic: " + p
	}
	if err != nil {
		return "FAIL valid document rejected: " + err.Error()
	}
	if what, walker := compareWalkers(pj, ex, false); what != "" {
		return "FAIL " + walker + ": " + what
	}
	return "OK all walkers expose " + clip(ex.exact)
}

func init() {
	register(&check{
		prop: "C02", name: "exposed-structure", level: "model_checking",
		rule:   "Every abstract document of the bounded space (all ordered trees up to N nodes over the scalar/key alphabets x 4 white-space layouts; every nesting depth 1..600 and 1000/10000; every token kind on every index-buffer slot around the flush edges incl. ring wrap) is parsed by the real code under all kernel/string-mode configs and read back through 4 traversal-API combinations, the flat AdvanceInto walk and Interface(); each result must equal the ordered reference tree. states=documents generated, transitions=document texts checked, evaluations=texts, traces_validated=Parse calls whose exposure was compared; distinct_nontrivial=distinct reference trees.",
		assume: []string{"reference tree from ref/refjson.go; walkers use only the public API"},
		body:   c02Body,
		replay: c02Replay,
	})
}
