package main

import (
	"bytes"
	"context"
	"fmt"
	"io"
	"os"
	"os/exec"
	"runtime"
	"runtime/pprof"
	"strings"
	"sync"
	"sync/atomic"
	"time"

	simdjson "github.com/minio/simdjson-go"
)

// racepassMain: free-running goroutines on the real (uninstrumented) package, built with
// -race. Sampling, not exhaustive: it supports the "data-race free" part of C20 and the
// sequential-consistency assumption under the schedule explorations of C07/C09/C20.
func racepassMain(tier string) {
	dur := 12 * time.Second
	if tier == "thorough" {
		dur = 120 * time.Second
	}
	small := []string{`{"a":[1,"x"],"b":{"c":null},"id":0}`, `["second goroutine",2.5,true,{"k":"v"},1]`, `{"third":[3,3,3],"s":"three"}`}
	big := func(id int) []byte {
		var sb strings.Builder
		sb.WriteString("[")
		for i := 0; i < 2500; i++ {
			fmt.Fprintf(&sb, `{"g":%d,"i":%d,"s":"v%d"},`, id, i, i*(id+3))
		}
		sb.WriteString("0]")
		return []byte(sb.String())
	}
	render := func(pj *simdjson.ParsedJson, err error) string {
		if err != nil {
			return "ERR " + err.Error()
		}
		docs, werr := walkFlat(pj)
		if werr != nil {
			return "UNREADABLE " + werr.Error()
		}
		return renderDocs(docs, renderExact)
	}
	type op func(id int) string
	ops := []op{
		func(id int) string { return render(simdjson.Parse([]byte(small[id%3]), nil)) },
		func(id int) string {
			pj, err := simdjson.Parse(big(id%5), nil)
			if err != nil {
				return "ERR"
			}
			return fmt.Sprintf("%016x", tapeHash(pj))
		},
		func(id int) string { return render(simdjson.ParseND([]byte(small[id%3]+"\n"+small[(id+1)%3]), nil)) },
		func(id int) string {
			pj, err := simdjson.Parse([]byte(small[id%3]), nil)
			if err != nil {
				return "ERR"
			}
			c := pj.Clone(nil)
			if it, e := navigate(c, vpath{0, 0}, 1); e == nil {
				if it.Type() == simdjson.TypeArray || it.Type() == simdjson.TypeObject {
					it.SetNull()
				} else {
					it.SetString("edited")
				}
			}
			return render(pj, nil) + "/" + render(c, nil)
		},
		func(id int) string {
			pj, err := simdjson.Parse(big(id%5), nil)
			if err != nil {
				return "ERR"
			}
			var sb strings.Builder
			for m := 0; m < 4; m++ {
				s := simdjson.NewSerializer()
				s.CompressMode(simdjson.CompressMode((m + id) % 4))
				b := s.Serialize(nil, *pj)
				out, derr := simdjson.NewSerializer().Deserialize(b, nil)
				if derr != nil {
					return "ERR " + derr.Error()
				}
				fmt.Fprintf(&sb, "%016x ", tapeHash(out))
			}
			return sb.String()
		},
		func(id int) string {
			// Parse; Reset; the owner refills the object (Clone destination) while parsing on
			pj, err := simdjson.Parse([]byte(small[id%3]), nil)
			if err != nil {
				return "ERR"
			}
			pj.Reset()
			src, err := simdjson.Parse(big((id+1)%5), nil)
			if err != nil {
				return "ERR"
			}
			c := src.Clone(pj)
			other, perr := simdjson.Parse([]byte(small[(id+1)%3]), nil)
			return fmt.Sprintf("%016x %s %016x", tapeHash(c), render(other, perr), tapeHash(c))
		},
		func(id int) string {
			// ParseNDStream with recycling
			var in bytes.Buffer
			for i := 0; i < 40; i++ {
				fmt.Fprintf(&in, "{\"g\":%d,\"i\":%d}\n", id%5, i)
			}
			res := make(chan simdjson.Stream, 2)
			reuse := make(chan *simdjson.ParsedJson, 2)
			simdjson.ParseNDStream(&slowReader{r: &in, n: 37 + id%11}, res, reuse)
			var sb strings.Builder
			for v := range res {
				if v.Error != nil {
					if v.Error != io.EOF {
						sb.WriteString("ERR " + v.Error.Error())
					}
					continue
				}
				sb.WriteString(render(v.Value, nil))
				select {
				case reuse <- v.Value:
				default:
				}
			}
			return sb.String()
		},
	}
	// marshalling (float, integer and string writers) and Interface on own documents
	floatDoc := func(id int) []byte {
		var sb strings.Builder
		sb.WriteString("[")
		for i := 0; i < 60; i++ {
			fmt.Fprintf(&sb, `%d.%d,%de-%d,{"s%d":"a\tb","f":%d.5e%d},`, 371814+id*i, 24462890625+i, id+1, 7+i%9, i, i*id+1, 15+i%6)
		}
		sb.WriteString("-0.0]")
		return []byte(sb.String())
	}
	ops = append(ops, func(id int) string {
		pj, err := simdjson.Parse(floatDoc(id%5), nil)
		if err != nil {
			return "ERR " + err.Error()
		}
		it := pj.Iter()
		out, merr := it.MarshalJSON()
		it2 := pj.Iter()
		v, ierr := it2.Interface()
		return fmt.Sprintf("%s %v %v %v", out, merr, v, ierr)
	})
	// a clone handed to another goroutine while its source is refilled by Deserialize
	ops = append(ops, func(id int) string {
		s := simdjson.NewSerializer()
		a, err := simdjson.Parse([]byte(small[id%3]), nil)
		b, err2 := simdjson.Parse([]byte(small[(id+1)%3]), nil)
		if err != nil || err2 != nil {
			return "ERR"
		}
		blobA := append([]byte(nil), s.Serialize(nil, *a)...)
		blobB := append([]byte(nil), s.Serialize(nil, *b)...)
		pj, derr := s.Deserialize(blobA, nil)
		if derr != nil {
			return "ERR " + derr.Error()
		}
		c := pj.Clone(nil)
		done := make(chan string)
		go func() { done <- render(c, nil) }()
		pj, derr = s.Deserialize(blobB, pj)
		fromClone := <-done
		return fromClone + " / " + render(pj, derr) + " / " + render(c, nil)
	})
	// cold start: fresh processes in which the first use of the package's lazily built shared
	// state (the zstd decoder behind NewSerializer) happens in many goroutines at once
	coldRuns, coldMism := racepassColdParent(small, render, tier)
	// reference results, computed alone
	want := map[[2]int]string{}
	for o := range ops {
		for id := 0; id < 15; id++ {
			want[[2]int{o, id}] = ops[o](id)
		}
	}
	n := 4 * runtime.GOMAXPROCS(0)
	var iters, mism atomic.Int64
	var first sync.Once
	phase := func(dur time.Duration, label string) {
		var wg sync.WaitGroup
		deadline := time.Now().Add(dur)
		for g := 0; g < n; g++ {
			wg.Add(1)
			go func(g int) {
				defer wg.Done()
				k := g
				for time.Now().Before(deadline) {
					o := k % len(ops)
					id := (k / len(ops)) % 15
					got := ops[o](id)
					iters.Add(1)
					if got != want[[2]int{o, id}] {
						mism.Add(1)
						first.Do(func() {
							fmt.Printf("racepass-mismatch (%s): op %d id %d: got %.300s want %.300s\n", label, o, id, got, want[[2]int{o, id}])
						})
					}
					k += 7
					if k%13 == 0 {
						runtime.Gosched()
					}
				}
			}(g)
		}
		// every goroutine works on its own objects, so all of them return shortly after the
		// deadline; if they do not, they are blocked on something they share
		finished := make(chan struct{})
		go func() { wg.Wait(); close(finished) }()
		select {
		case <-finished:
		case <-time.After(dur + 90*time.Second):
			fmt.Printf("racepass-mismatch (%s): goroutines working on their own objects are still blocked 90 s after the pass ended (deadlock on shared state); goroutine dump follows\n", label)
			pprof.Lookup("goroutine").WriteTo(os.Stdout, 1)
			fmt.Printf("racepass: %d goroutine-programs run, %d mismatches\n", iters.Load(), mism.Load()+1)
			os.Exit(1)
		}
	}
	if hasAVX512 {
		// both stage-1 kernels: the selection is process-wide CPU-feature state, switched
		// while no goroutine of the pass is running
		phase(dur/2, "AVX-512 kernel")
		setKernel(false)
		phase(dur/2, "AVX2 kernel")
		setKernel(true)
	} else {
		phase(dur, "AVX2 kernel")
	}
	// stage-1 kernels under contention: the race detector does not see what assembly writes, so
	// the slice kernels of both families are called directly from one goroutine per processor,
	// each on its own buffer, state and index array, and have to return what they return alone
	kr, km := racepassKernels(dur / 8)
	iters.Add(kr)
	mism.Add(km)
	iters.Add(coldRuns)
	mism.Add(coldMism)
	fmt.Printf("racepass: %d goroutine-programs run, %d mismatches\n", iters.Load(), mism.Load())
	if mism.Load() > 0 {
		os.Exit(1)
	}
}

// racepassColdParent writes blobs of the small documents to a scratch file and runs fresh
// child processes (same -race binary) whose goroutines all start with NewSerializer +
// Deserialize of one of them; the child prints one line per goroutine.
func racepassColdParent(small []string, render func(*simdjson.ParsedJson, error) string, tier string) (runs, mism int64) {
	var blobs [][]byte
	var want []string
	for _, d := range small {
		pj, err := simdjson.Parse([]byte(d), nil)
		if err != nil {
			fmt.Println("racepass-mismatch: cannot parse", d)
			return 0, 1
		}
		s := simdjson.NewSerializer()
		s.CompressMode(simdjson.CompressBest)
		blobs = append(blobs, append([]byte(nil), s.Serialize(nil, *pj)...))
		want = append(want, strings.ReplaceAll(render(pj, nil), "\n", " "))
	}
	f, err := os.CreateTemp(os.Getenv("VERIF_SCRATCH"), "coldblobs")
	if err != nil {
		fmt.Println("racepass-mismatch: scratch file:", err)
		return 0, 1
	}
	defer os.Remove(f.Name())
	for _, b := range blobs {
		fmt.Fprintf(f, "%x\n", b)
	}
	f.Close()
	n := 8
	if tier == "thorough" {
		n = 40
	}
	for i := 0; i < n; i++ {
		ctx, cancel := context.WithTimeout(context.Background(), 120*time.Second)
		out, _ := exec.CommandContext(ctx, os.Args[0], "racepass-cold", f.Name()).CombinedOutput()
		timedOut := ctx.Err() != nil
		cancel()
		text := string(out)
		if timedOut {
			mism++
			fmt.Printf("racepass-mismatch: cold-start child did not finish within 120 s (goroutines blocked on shared state): %.600s\n", text)
			continue
		}
		if strings.Contains(text, "WARNING: DATA RACE") {
			fmt.Println(text) // counted by the driver
		}
		seen := 0
		for _, l := range strings.Split(text, "\n") {
			var id int
			if !strings.HasPrefix(l, "cold ") {
				continue
			}
			rest := strings.TrimPrefix(l, "cold ")
			sp := strings.IndexByte(rest, ' ')
			fmt.Sscanf(rest[:sp], "%d", &id)
			seen++
			runs++
			if rest[sp+1:] != want[id%len(want)] {
				mism++
				if mism == 1 {
					fmt.Printf("racepass-mismatch: cold start, goroutine %d: got %.300s want %.300s\n", id, rest[sp+1:], want[id%len(want)])
				}
			}
		}
		if seen == 0 {
			mism++
			fmt.Printf("racepass-mismatch: cold-start child produced no results: %.600s\n", text)
		}
	}
	return runs, mism
}

func racepassColdChild(file string) {
	raw, err := os.ReadFile(file)
	if err != nil {
		fmt.Println("cannot read", file)
		os.Exit(3)
	}
	var blobs [][]byte
	for _, l := range strings.Fields(string(raw)) {
		b := make([]byte, len(l)/2)
		fmt.Sscanf(l, "%x", &b)
		blobs = append(blobs, b)
	}
	n := 4 * runtime.GOMAXPROCS(0)
	res := make([]string, n)
	start := make(chan struct{})
	var wg sync.WaitGroup
	for g := 0; g < n; g++ {
		wg.Add(1)
		go func(g int) {
			defer wg.Done()
			defer func() {
				if r := recover(); r != nil {
					res[g] = fmt.Sprint("PANIC ", r)
				}
			}()
			<-start
			out, err := simdjson.NewSerializer().Deserialize(blobs[g%len(blobs)], nil)
			if err != nil {
				res[g] = "ERR " + err.Error()
				return
			}
			docs, werr := walkFlat(out)
			if werr != nil {
				res[g] = "UNREADABLE " + werr.Error()
				return
			}
			res[g] = renderDocs(docs, renderExact)
		}(g)
	}
	close(start)
	wg.Wait()
	for g, r := range res {
		fmt.Printf("cold %d %s\n", g, strings.ReplaceAll(r, "\n", " "))
	}
}

type slowReader struct {
	r io.Reader
	n int
}

func (s *slowReader) Read(p []byte) (int, error) {
	if len(p) > s.n {
		p = p[:s.n]
	}
	return s.r.Read(p)
}

// racepassKernels: see the call site.
func racepassKernels(dur time.Duration) (runs, mism int64) {
	type result struct {
		processed uint64
		st        simdjson.VerifS1State
		idx       []uint32
	}
	mk := func(g int) []byte {
		var sb strings.Builder
		sb.WriteString("[")
		for i := 0; sb.Len() < 6000+64*g; i++ {
			fmt.Fprintf(&sb, `{"g%d":"a\\\"b%d","n":[%d,true,null],"s":"%s"},`, g, i, i*(g+7), strings.Repeat("x\\", (i+g)%9))
		}
		sb.WriteString("0]")
		return append(make([]byte, 0, sb.Len()+128), sb.String()...)
	}
	one := func(avx512 bool, buf []byte, idx *[simdjson.VerifIndexSize]uint32) result {
		var st simdjson.VerifS1State
		st.Position = ^uint64(0)
		n := simdjson.VerifStage1(avx512, buf, &st, idx, 0)
		return result{n, st, append([]uint32(nil), idx[:st.IndexLen]...)}
	}
	same := func(a, b result) bool {
		if a.processed != b.processed || a.st != b.st || len(a.idx) != len(b.idx) {
			return false
		}
		for i := range a.idx {
			if a.idx[i] != b.idx[i] {
				return false
			}
		}
		return true
	}
	fams := []bool{false}
	if hasAVX512 {
		fams = append(fams, true)
	}
	n := runtime.GOMAXPROCS(0)
	if n < 2 {
		n = 2
	}
	var r, m atomic.Int64
	for _, fam := range fams {
		bufs := make([][]byte, n)
		want := make([]result, n)
		for g := range bufs {
			bufs[g] = mk(g)
			want[g] = one(fam, bufs[g], new([simdjson.VerifIndexSize]uint32))
		}
		var wg sync.WaitGroup
		var first sync.Once
		deadline := time.Now().Add(dur)
		for g := 0; g < n; g++ {
			wg.Add(1)
			go func(g int) {
				defer wg.Done()
				idx := new([simdjson.VerifIndexSize]uint32)
				for time.Now().Before(deadline) {
					for k := 0; k < 50; k++ {
						got := one(fam, bufs[g], idx)
						r.Add(1)
						if !same(got, want[g]) {
							m.Add(1)
							first.Do(func() {
								fmt.Printf("racepass-mismatch (stage-1 slice kernel, avx512=%v, goroutine %d of %d, each on its own buffer and state): processed=%d state=%+v %d indexes; alone: processed=%d state=%+v %d indexes\n", fam, g, n, got.processed, got.st, len(got.idx), want[g].processed, want[g].st, len(want[g].idx))
							})
						}
					}
				}
			}(g)
		}
		wg.Wait()
	}
	return r.Load(), m.Load()
}
