package main

import (
	"encoding/binary"
	"errors"
	"fmt"
	"strings"

	"github.com/klauspost/compress/zstd"
	simdjson "github.com/minio/simdjson-go"
)

const maxDeclared = 1 << 24

// frameDeclaredMax walks the framing the way Deserialize does and returns the largest
// section size the bytes declare (tape entries, strings, message, tags, values, and the
// content/window size of a zstd frame inside a block). ok=false: framing ends early
// (Deserialize will fail before allocating for later sections).
func frameDeclaredMax(b []byte) (max uint64) {
	upd := func(v uint64) {
		if v > max {
			max = v
		}
	}
	p := 0
	if len(b) < 1 {
		return
	}
	p++
	uv := func() (uint64, bool) {
		v, n := binary.Uvarint(b[p:])
		if n <= 0 {
			return 0, false
		}
		p += n
		return v, true
	}
	block := func() bool {
		sz, ok := uv()
		if !ok || sz > uint64(len(b)-p) {
			return false
		}
		if sz == 0 {
			return true
		}
		typ := b[p]
		payload := b[p+1 : p+int(sz)]
		p += int(sz)
		if typ == 2 {
			var h zstd.Header
			if err := h.Decode(payload); err == nil {
				if h.HasFCS {
					upd(h.FrameContentSize)
				}
				upd(h.WindowSize)
			}
		}
		return true
	}
	if _, ok := uv(); !ok { // comp size
		return
	}
	ts, ok := uv()
	if !ok {
		return
	}
	upd(ts)
	ss, ok := uv()
	if !ok {
		return
	}
	upd(ss)
	if !block() {
		return
	}
	for i := 0; i < 3; i++ { // message, tags, values
		v, ok := uv()
		if !ok {
			return
		}
		upd(v)
		if !block() {
			return
		}
	}
	return
}

// traverseAll runs every traversal / lookup / marshal API on a result and reports a panic
// or a non-terminating walk. API errors are fine (the tape may be nonsense).
var (
	travElements *simdjson.Elements
	travNames    []string
)

func traverseAll(pj *simdjson.ParsedJson) (what string) {
	defer func() {
		if r := recover(); r != nil {
			what = fmt.Sprintf("PANIC while traversing the returned result: %v", r)
		}
	}()
	// the reference walkers recurse once per nesting level (about 1 KB of stack each): beyond
	// 200000 levels only the iterative readers run (flat AdvanceInto walk, MarshalJSON,
	// FindElement, per-container calls); Go's own limit is a 1 GB stack
	veryDeep := tapeDepth(pj) > 200000
	for ci, o := range walkCombos {
		if veryDeep {
			break
		}
		if len(pj.Tape) > 1000 && ci != 0 && ci != 2 && ci != 5 {
			continue // large tapes: three of the six traversal combinations (every API family still runs)
		}
		if _, err := walkDoc(pj, o); err != nil {
			if errors.Is(err, errBudget) || strings.Contains(err.Error(), "PANIC") {
				return o.String() + ": " + err.Error()
			}
		}
	}
	if _, err := walkFlat(pj); err != nil && (errors.Is(err, errBudget) || strings.Contains(err.Error(), "PANIC")) {
		return "flat walk: " + err.Error()
	}
	// Array.Interface pre-allocates capacity proportional to the tape extent of every
	// nesting level, i.e. quadratic memory in the nesting depth (4 GB at depth 22528); that
	// is a resource question outside "terminates without panic", so Interface() is only
	// exercised up to depth 3000.
	if tapeDepth(pj) <= 3000 {
		if _, err := walkInterface(pj); err != nil && strings.Contains(err.Error(), "PANIC") {
			return err.Error()
		}
	}
	it := pj.Iter()
	it.MarshalJSON()
	it = pj.Iter()
	it.FindElement(nil, "a", "b")
	it = pj.Iter()
	containers := 0
	shallow := tapeDepth(pj) <= 3000
	for i := 0; i < 4*len(pj.Tape)+8; i++ {
		if it.PeekNextTag() == simdjson.TagEnd {
			break
		}
		t := it.AdvanceInto()
		if t == simdjson.TagObjectStart || t == simdjson.TagArrayStart {
			// per-container calls cost O(size): on huge tapes only the first 48 containers
			containers++
			if containers > 48 && len(pj.Tape) > 4096 {
				continue
			}
		}
		if t == simdjson.TagObjectStart {
			if obj, err := it.Object(nil); err == nil {
				obj.FindKey("a", nil)
				obj.FindPath(nil, "a", "k")
				obj.ForEach(func(key []byte, i simdjson.Iter) {}, map[string]struct{}{"a": {}})
				// Object.Parse into a long-lived Elements, then Lookup of the names the previous
				// objects had (a stale index must not lead outside the element list)
				if shallow && (containers <= 48 || len(pj.Tape) <= 4096) {
					if obj2, err2 := it.Object(nil); err2 == nil {
						if els, perr := obj2.Parse(travElements); perr == nil {
							travElements = els
							for _, k := range travNames {
								if el := els.Lookup(k); el != nil {
									el.Iter.Type()
								}
							}
							for i := range els.Elements {
								if len(travNames) < 64 && len(els.Elements[i].Name) < 32 {
									travNames = append(travNames, els.Elements[i].Name)
								}
							}
							if len(travNames) >= 64 {
								travNames = travNames[32:]
							}
						}
					}
				}
			}
		}
		if t == simdjson.TagArrayStart {
			if arr, err := it.Array(nil); err == nil {
				a2 := *arr
				a2.AsFloat()
				a2 = *arr
				a2.AsInteger()
				a2 = *arr
				a2.AsUint64()
				a2 = *arr
				a2.AsStringCvt()
				a2 = *arr
				a2.MarshalJSON()
				a2.FirstType()
				// and all of them one after the other on ONE Array value (each accessor leaves
				// the value where it stopped)
				a3 := *arr
				a3.AsFloat()
				a3.AsString()
				a3.AsInteger()
				a3.AsStringCvt()
				a3.AsUint64()
				a3.AsString()
				a3.MarshalJSON()
				if shallow && (containers <= 48 || len(pj.Tape) <= 4096) {
					a2 = *arr
					a2.Interface()
				}
			}
		}
	}
	return ""
}

type c19ctx struct {
	w     *W
	s     *simdjson.Serializer
	dst   *simdjson.ParsedJson
	calls int
}

func (c *c19ctx) try(harness string, frame []byte) {
	w := c.w
	w.res.Evaluations++
	if frameDeclaredMax(frame) > maxDeclared {
		w.Count("skipped_declared_size_over_2^24", 1)
		return
	}
	w.cur.Set(harness, "fresh", frame)
	w.res.Validated++
	fs := simdjson.NewSerializer()
	out, err, p := deserialize(fs, frame, nil)
	bad, fp := "", ""
	switch {
	case p != "":
		bad, fp = "Deserialize panicked: "+p, "panic/"+panicClass(p)
	case err == nil:
		w.Count("accepted", 1)
		w.Distinct(tapeHash(out))
		if what := traverseAll(out); what != "" {
			bad, fp = what, "traverse"
		}
	default:
		w.Count("rejected", 1)
	}
	if bad == "" {
		// second call on a long-lived Serializer and destination
		c.calls++
		if c.calls&1023 == 0 {
			c.s, c.dst = simdjson.NewSerializer(), nil
		}
		w.cur.Set(harness, "reused", frame)
		out2, err2, p2 := deserialize(c.s, frame, c.dst)
		if p2 != "" {
			bad, fp = "Deserialize (reused Serializer and destination) panicked: "+p2, "panic-reused/"+panicClass(p2)
			c.s, c.dst = simdjson.NewSerializer(), nil
		} else if err2 == nil {
			c.dst = out2
			if what := traverseAll(out2); what != "" {
				bad, fp = "(reused) "+what, "traverse-reused"
			}
		}
	}
	if bad != "" {
		w.Violate(Violation{Harness: harness, Fingerprint: "C19/" + fp, What: bad, Case: append([]byte(nil), frame...), CaseText: fmt.Sprintf("%x", frame), Config: "fresh"})
	}
}

func panicClass(p string) string {
	switch {
	case strings.Contains(p, "index out of range"):
		return "index"
	case strings.Contains(p, "slice bounds"):
		return "slice"
	case strings.Contains(p, "makeslice"):
		return "makeslice"
	case strings.Contains(p, "nil pointer"):
		return "nil"
	}
	if len(p) > 30 {
		p = p[:30]
	}
	return p
}

func uvar(v uint64) []byte {
	var t [10]byte
	n := binary.PutUvarint(t[:], v)
	return append([]byte(nil), t[:n]...)
}

func rawBlock(data []byte) []byte {
	if len(data) == 0 {
		return []byte{0}
	}
	b := uvar(uint64(len(data) + 1))
	b = append(b, 0)
	return append(b, data...)
}

// buildFrame assembles an uncompressed frame with every field under control.
func buildFrame(ts uint64, tags, values, msg []byte) []byte {
	var body []byte
	body = append(body, uvar(ts)...)
	body = append(body, 0) // strings size
	body = append(body, 0) // strings block (empty)
	body = append(body, uvar(uint64(len(msg)))...)
	body = append(body, rawBlock(msg)...)
	body = append(body, uvar(uint64(len(tags)))...)
	body = append(body, rawBlock(tags)...)
	body = append(body, uvar(uint64(len(values)))...)
	body = append(body, rawBlock(values)...)
	f := []byte{3}
	f = append(f, uvar(uint64(len(body)))...)
	return append(f, body...)
}

// buildFrameS is buildFrame with a non-empty strings section.
func buildFrameS(ts uint64, strs, tags, values, msg []byte) []byte {
	var body []byte
	body = append(body, uvar(ts)...)
	body = append(body, uvar(uint64(len(strs)))...)
	body = append(body, rawBlock(strs)...)
	body = append(body, uvar(uint64(len(msg)))...)
	body = append(body, rawBlock(msg)...)
	body = append(body, uvar(uint64(len(tags)))...)
	body = append(body, rawBlock(tags)...)
	body = append(body, uvar(uint64(len(values)))...)
	body = append(body, rawBlock(values)...)
	f := []byte{3}
	f = append(f, uvar(uint64(len(body)))...)
	return append(f, body...)
}

var g1Tags = []byte{'"', 'l', 'u', 'd', 'e', 'n', 't', 'f', '{', '}', '[', ']', 'r', 'N', 0, 'x'}

func g1Options(tag byte, ts uint64, off int) [][]uint64 {
	const sbit = simdjson.STRINGBUFBIT
	switch tag {
	case '"':
		return [][]uint64{{0, 0}, {0, 3}, {1, 3}, {sbit, 3}, {^uint64(0), 1}, {0, ^uint64(0)}}
	case 'l', 'u', 'd':
		return [][]uint64{{0}, {^uint64(0)}}
	case 'e':
		return [][]uint64{{uint64('d')<<56 | 1, 0}, {0, 0}, {uint64('N')<<56 | 5, 0}, {uint64('N') << 56, 0}, {uint64('N')<<56 | 1, 0}, {uint64('{')<<56 | 9, 0}, {uint64('"')<<56 | 2, 7}, {uint64('r') << 56, 0}, {^uint64(0), 0}}
	case '{', '[', 'r':
		return [][]uint64{{0}, {1}, {2}, {3}, {ts - uint64(off)}, {ts - uint64(off) + 1}, {-uint64(off)}, {1 << 63}, {^uint64(0)}}
	}
	return [][]uint64{{}}
}

func c19Body(w *W) {
	c := &c19ctx{w: w, s: simdjson.NewSerializer()}
	// ---- G1: frame enumeration ----
	maxTags := 3
	if w.Thorough() {
		maxTags = 4
	}
	if v := envInt("VERIF_C19_MAXTAGS", 0); v > 0 {
		maxTags = int(v)
	}
	onlyG1 := envInt("VERIF_C19_ONLY_G1", 0) == 1
	w.Note(fmt.Sprintf("G1: every uncompressed frame with tape size 0..4, tag strings of <= %d tags over %d tag bytes, per-tag value options (6 for strings, 2 for numbers, 9 for the verbatim tape word of flagged floats (incl. NOP words with skip 0/1/5, container, string and root words), 9 for offset-bearing tags incl. 0, wrap to 0, tape size, 2^63, 2^64-1), value byte count -8/exact/+8, message empty or 3 bytes", maxTags, len(g1Tags)))
	var tags []byte
	var rec func(d int)
	rec = func(d int) {
		w.res.States++
		for ts := uint64(0); ts <= 4; ts++ {
			// odometer over per-tag options
			opts := make([][][]uint64, len(tags))
			for i, t := range tags {
				opts[i] = g1Options(t, ts, i)
			}
			idx := make([]int, len(tags))
			for {
				var vals []byte
				for i := range tags {
					for _, v := range opts[i][idx[i]] {
						var t [8]byte
						binary.LittleEndian.PutUint64(t[:], v)
						vals = append(vals, t[:]...)
					}
				}
				for variant := 0; variant < 3; variant++ {
					v := vals
					switch variant {
					case 1:
						if len(v) < 8 {
							continue
						}
						v = v[:len(v)-8]
					case 2:
						v = append(append([]byte(nil), v...), 1, 0, 0, 0, 0, 0, 0, 0)
					}
					for _, msg := range [][]byte{nil, []byte("abc")} {
						w.res.Transitions++
						c.try("C19-G1-frames", buildFrame(ts, tags, v, msg))
					}
				}
				j := len(idx) - 1
				for j >= 0 {
					idx[j]++
					if idx[j] < len(opts[j]) {
						break
					}
					idx[j] = 0
					j--
				}
				if j < 0 {
					break
				}
			}
		}
		if d == maxTags {
			return
		}
		for _, t := range g1Tags {
			if d == 0 && !w.Mine() {
				continue
			}
			if w.Expired() || w.TooManyViolations() {
				return
			}
			tags = append(tags, t)
			rec(d + 1)
			tags = tags[:len(tags)-1]
		}
	}
	rec(0)
	w.Sample(fmt.Sprintf("G1 sample frame: %x", buildFrame(2, []byte{'[', ']'}, []byte{2, 0, 0, 0, 0, 0, 0, 0}, nil)))

	// ---- G1s: frames that carry a strings section (Serialize never writes one, Deserialize
	// reads it): string entries that point into it with lengths around 0 and around 2^64
	w.Note("G1s: frames with a strings section of 0..3 bytes and a message of 0 or 3 bytes; one string entry (as array element, as object key + value; framing otherwise exactly as Serialize writes it) whose offset word is STRINGBUFBIT|0..4 or 0..4 and whose length word is 0..4, 2^64-1..2^64-5, 2^63, 2^63-1")
	{
		const sbit = simdjson.STRINGBUFBIT
		var lens []uint64
		for k := uint64(0); k <= 4; k++ {
			lens = append(lens, k)
		}
		for k := uint64(1); k <= 5; k++ {
			lens = append(lens, -k)
		}
		lens = append(lens, 1<<63, 1<<63-1)
		shapes := []struct {
			tags  []byte
			ts    uint64
			pre   []uint64 // value words before the string's two words
			post  []uint64
			twice bool
		}{
			{[]byte{'r', '[', '"', ']', 'r'}, 6, []uint64{6, 4}, []uint64{^uint64(4)}, false},
			{[]byte{'r', '{', '"', '"', '}', 'r'}, 8, []uint64{8, 6}, []uint64{^uint64(6)}, true},
		}
		for si, sh := range shapes {
			w.res.States++
			if !w.Mine() {
				continue
			}
			_ = si
			for off := uint64(0); off <= 4; off++ {
				for _, hi := range []uint64{sbit, 0} {
					for _, l := range lens {
						for ssz := 0; ssz <= 3; ssz++ {
							for _, msg := range [][]byte{nil, []byte("abc")} {
								words := append([]uint64(nil), sh.pre...)
								words = append(words, hi|off, l)
								if sh.twice {
									words = append(words, hi|off, l)
								}
								words = append(words, sh.post...)
								var vals []byte
								for _, v := range words {
									var t [8]byte
									binary.LittleEndian.PutUint64(t[:], v)
									vals = append(vals, t[:]...)
								}
								w.res.Transitions++
								c.try("C19-G1s-strings-section", buildFrameS(sh.ts, []byte("xyz")[:ssz], sh.tags, vals, msg))
							}
						}
					}
				}
			}
		}
	}
	if onlyG1 {
		return
	}
	// ---- G2: mutation closure of valid blobs ----
	ts := c11Tapes(w)
	var blobs [][]byte
	var names []string
	for _, t := range ts {
		if t.big || t.aux {
			continue
		}
		for m := 0; m < 4; m++ {
			s := simdjson.NewSerializer()
			s.CompressMode(simdjson.CompressMode(m))
			b, p := serialize(s, t.pj)
			if p != "" {
				continue
			}
			blobs = append(blobs, append([]byte(nil), b...))
			names = append(names, t.name+"/"+modeNames[m])
		}
	}
	total := 0
	for _, b := range blobs {
		total += len(b)
	}
	w.Note(fmt.Sprintf("G2: mutation closure of %d valid blobs (7 tapes x 4 modes, %d bytes in total): every truncation, every byte x 256 values, every single-byte deletion, every single-bit flip, and every splice prefix(A)+suffix(B) over all cut pairs for blob pairs of the same tape", len(blobs), total))
	for bi, b := range blobs {
		for pos := 0; pos <= len(b); pos++ {
			w.res.States++
			if !w.Mine() || w.Expired() || w.TooManyViolations() {
				continue
			}
			w.res.Transitions++
			c.try("C19-G2-truncate/"+names[bi], b[:pos])
			if pos == len(b) {
				continue
			}
			m := append([]byte(nil), b...)
			for v := 0; v < 256; v++ {
				if byte(v) == b[pos] {
					continue
				}
				m[pos] = byte(v)
				w.res.Transitions++
				c.try("C19-G2-substitute/"+names[bi], m)
			}
			del := append(append([]byte(nil), b[:pos]...), b[pos+1:]...)
			w.res.Transitions++
			c.try("C19-G2-delete/"+names[bi], del)
			ins := append(append(append([]byte(nil), b[:pos]...), b[pos]), b[pos:]...)
			w.res.Transitions++
			c.try("C19-G2-duplicate/"+names[bi], ins)
		}
	}
	// ---- G3: every varint field of every valid blob replaced by every boundary value ----
	bvals := []uint64{0, 1, 2, 127, 128, 255, 256, 16383, 16384, 1 << 24, 1<<31 - 1, 1 << 31, 1<<32 - 1, 1 << 32, 1<<63 - 1, 1 << 63, 1<<63 + 1, ^uint64(0)}
	malformed := [][]byte{{0x80}, {0xff, 0xff, 0xff, 0xff, 0xff, 0xff, 0xff, 0xff, 0xff, 0x7f}, {0xff, 0xff, 0xff, 0xff, 0xff, 0xff, 0xff, 0xff, 0xff, 0xff, 0x01}, {0x80, 0x80, 0x00}}
	w.Note(fmt.Sprintf("G3: each of the 10 varint fields (comp size, tape size, strings size/block, message size/block, tags size/block, values size/block) of every valid blob replaced by each of %d boundary values (0, 1, 2^7, 2^14, 2^24, 2^31, 2^32, 2^63-1, 2^63, 2^63+1, 2^64-1, ...) and %d malformed encodings", len(bvals), len(malformed)))
	for bi, b := range blobs {
		fields := varintFields(b)
		for fi, f := range fields {
			w.res.States++
			if !w.Mine() || w.Expired() || w.TooManyViolations() {
				continue
			}
			var reps [][]byte
			for _, v := range bvals {
				reps = append(reps, uvar(v))
			}
			reps = append(reps, malformed...)
			for _, r := range reps {
				m := append(append(append([]byte(nil), b[:f[0]]...), r...), b[f[0]+f[1]:]...)
				w.res.Transitions++
				c.try(fmt.Sprintf("C19-G3-varint-field-%d/%s", fi, names[bi]), m)
			}
		}
	}
	// splices between the blobs of one tape in different modes, and between tapes in mode none
	for ai := range blobs {
		for bi := range blobs {
			if ai == bi {
				continue
			}
			sameTape := ai/4 == bi/4
			bothNone := ai%4 == 0 && bi%4 == 0
			if !sameTape && !bothNone {
				continue
			}
			a, b := blobs[ai], blobs[bi]
			for i := 0; i <= len(a); i++ {
				w.res.States++
				if !w.Mine() || w.Expired() || w.TooManyViolations() {
					continue
				}
				for j := 0; j <= len(b); j++ {
					sp := append(append([]byte(nil), a[:i]...), b[j:]...)
					w.res.Transitions++
					c.try("C19-G2-splice/"+names[ai]+"+"+names[bi], sp)
				}
			}
		}
	}
}

func c19Replay(v *Violation) string {
	fs := simdjson.NewSerializer()
	out, err, p := deserialize(fs, v.Case, nil)
	if p != "" {
		return "FAIL Deserialize panicked: " + p
	}
	if err != nil {
		return "OK rejected: " + err.Error()
	}
	if what := traverseAll(out); what != "" {
		return "FAIL " + what
	}
	return "OK accepted and traversable"
}

func init() {
	register(&check{
		prop: "C19", name: "deserialize-corrupt", level: "model_checking",
		rule:   "Trivial model (no panic, no hang, result traversable). G1: every uncompressed frame over a bounded alphabet of tape sizes, tag strings, per-tag value options, value-count variants and message sections, built by the harness so every field is under control. G2: the full single-edit closure (truncation, 256-way byte substitution, deletion, duplication) and all two-blob splices of valid blobs of 7 tapes in all 4 compression modes. Every frame is given to the real Deserialize with fresh objects and again with a long-lived Serializer and destination; on success all walkers, lookups, bulk accessors and MarshalJSON run under a step budget. Frames declaring a section (or zstd content/window) size above 2^24 are skipped and counted. states=enumeration nodes, transitions=frames, traces_validated=Deserialize calls judged; distinct_nontrivial=distinct accepted tapes.",
		assume: []string{"frames declaring sizes above 2^24 are outside the claim ('small enough to allocate')", "hang detection: step budgets in walkers; a hang inside Deserialize would show as a killed worker"},
		body:   c19Body,
		replay: c19Replay,
	})
}

func tapeDepth(pj *simdjson.ParsedJson) int {
	d, max := 0, 0
	for i := 0; i < len(pj.Tape); i++ {
		switch byte(pj.Tape[i] >> 56) {
		case '{', '[':
			d++
			if d > max {
				max = d
			}
		case '}', ']':
			d--
		case '"', 'l', 'u', 'd':
			i++
		}
	}
	return max
}

// varintFields lists (offset, length) of the varint fields of a well-formed blob, in the
// order Deserialize reads them.
func varintFields(b []byte) [][2]int {
	var out [][2]int
	p := 1
	uv := func() (uint64, bool) {
		v, n := binary.Uvarint(b[p:])
		if n <= 0 {
			return 0, false
		}
		out = append(out, [2]int{p, n})
		p += n
		return v, true
	}
	block := func() bool {
		sz, ok := uv()
		if !ok || sz > uint64(len(b)-p) {
			return false
		}
		p += int(sz)
		return true
	}
	if _, ok := uv(); !ok {
		return out
	}
	if _, ok := uv(); !ok {
		return out
	}
	if _, ok := uv(); !ok {
		return out
	}
	if !block() {
		return out
	}
	for i := 0; i < 3; i++ {
		if _, ok := uv(); !ok {
			return out
		}
		if !block() {
			return out
		}
	}
	return out
}
