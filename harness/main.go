// Command vharness runs one property check: as driver it spawns worker processes
// (shards of the enumeration), merges their results, writes the evidence file and prints
// VIOLATION / KNOWN-FINDING lines. As worker it runs one shard.
package main

import (
	"bufio"
	"bytes"
	"crypto/sha256"
	"encoding/hex"
	"encoding/json"
	"fmt"
	"os"
	"os/exec"
	"path/filepath"
	"runtime"
	"runtime/pprof"
	"sort"
	"strconv"
	"strings"
	"sync"
	"syscall"
	"time"
)

// Violation is one failing case, replayable.
type Violation struct {
	Property    string `json:"property"`
	Harness     string `json:"harness"`
	Fingerprint string `json:"fingerprint"`
	What        string `json:"what"`
	Case        []byte `json:"case"`           // raw input / encoded history
	CaseText    string `json:"case_text"`      // human-readable rendering
	Config      string `json:"config"`         // kernel/string-mode/etc.
	Args        string `json:"args,omitempty"` // harness-specific extra
}

// Result is what a worker reports.
type Result struct {
	Evaluations int64            `json:"evaluations"`
	States      int64            `json:"states"`
	Transitions int64            `json:"transitions"`
	Validated   int64            `json:"validated"`
	Distinct    []uint64         `json:"distinct,omitempty"` // hashes of distinct non-trivial observations
	Samples     []string         `json:"samples,omitempty"`
	Violations  []Violation      `json:"violations,omitempty"`
	Counters    map[string]int64 `json:"counters,omitempty"`
	Notes       []string         `json:"notes,omitempty"`
	Capped      bool             `json:"capped,omitempty"` // a time/size cap was hit
	Fatal       string           `json:"fatal,omitempty"`  // harness/oracle error (exit 3)
}

// W is the per-worker context handed to harness bodies.
type W struct {
	Prop, Tier   string
	Shard, N     int
	Seed         int64
	res          Result
	distinct     map[uint64]struct{}
	fpSeen       map[string]int
	cur          *curFile
	deadline     time.Time
	unit         int64 // shard unit counter
	harnessName  string
	sampleBudget int
}

const maxDistinct = 1 << 21
const maxViolPerFP = 2
const maxFP = 40

func (w *W) Thorough() bool { return w.Tier == "thorough" }

// Mine deals work units round-robin to shards.
func (w *W) Mine() bool {
	u := w.unit
	w.unit++
	return int(u%int64(w.N)) == w.Shard
}

func (w *W) Count(name string, d int64) {
	if w.res.Counters == nil {
		w.res.Counters = map[string]int64{}
	}
	w.res.Counters[name] += d
}

func (w *W) Max(name string, v int64) {
	if w.res.Counters == nil {
		w.res.Counters = map[string]int64{}
	}
	if v > w.res.Counters[name] {
		w.res.Counters[name] = v
	}
}

func (w *W) Distinct(h uint64) {
	if len(w.distinct) < maxDistinct {
		w.distinct[h] = struct{}{}
	}
}

func (w *W) Sample(s string) {
	if len(w.res.Samples) < w.sampleBudget {
		if len(s) > 300 {
			s = s[:300] + "…"
		}
		w.res.Samples = append(w.res.Samples, s)
	}
}

func (w *W) Note(s string) { w.res.Notes = append(w.res.Notes, s) }

// Expired reports whether the worker's time cap has passed; harnesses then stop,
// marking the run as capped (exit 0, exhaustive:false).
func (w *W) Expired() bool {
	if time.Now().After(w.deadline) {
		w.res.Capped = true
		return true
	}
	return false
}

func (w *W) TooManyViolations() bool { return len(w.fpSeen) >= maxFP }

// Violate records a violation (deduplicated per fingerprint).
func (w *W) Violate(v Violation) {
	if v.Property == "" {
		v.Property = w.Prop
	}
	if v.Harness == "" {
		v.Harness = w.harnessName
	}
	w.fpSeen[v.Fingerprint]++
	if w.fpSeen[v.Fingerprint] > maxViolPerFP || len(w.fpSeen) > maxFP {
		w.Count("violations_suppressed_duplicates", 1)
		return
	}
	if v.CaseText == "" {
		v.CaseText = strconv.QuoteToASCII(string(v.Case))
	}
	if len(v.CaseText) > 600 {
		v.CaseText = v.CaseText[:600] + "…"
	}
	w.res.Violations = append(w.res.Violations, v)
}

func (w *W) Fatal(format string, a ...any) {
	w.res.Fatal = fmt.Sprintf(format, a...)
	w.finish()
	os.Exit(3)
}

func (w *W) finish() {
	for h := range w.distinct {
		w.res.Distinct = append(w.res.Distinct, h)
	}
	out := bufio.NewWriter(os.Stdout)
	enc := json.NewEncoder(out)
	enc.Encode(&w.res)
	out.Flush()
}

// A check is a named harness body.
type check struct {
	prop    string
	name    string
	level   string
	rule    string
	assume  []string
	body    func(w *W)
	workers int // 0 = all cores
	// replay re-executes one recorded case and returns a description of what happened
	replay func(v *Violation) string
	// post runs once in the driver after the workers' results were merged
	post func(m *Result, tier string)
	// seqSep: if set, replay understands a case of the form first+seqSep+second (two inputs
	// parsed in this order with one reused parser state); used to confirm a worker death that
	// the dying input alone does not reproduce
	seqSep string
}

var checks = map[string]*check{}

func register(c *check) { checks[c.prop] = c }

func main() {
	if len(os.Args) < 2 {
		fmt.Fprintln(os.Stderr, "usage: vharness <prop> <tier> | worker <prop> <tier> <i> <n> | replay <file>")
		os.Exit(3)
	}
	switch os.Args[1] {
	case "worker":
		workerMain(os.Args[2:])
	case "replay":
		replayMain(os.Args[2])
	case "selftest":
		selftestMain()
	case "racepass":
		tier := "quick"
		if len(os.Args) > 2 {
			tier = os.Args[2]
		}
		racepassMain(tier)
	case "racepass-cold":
		racepassColdChild(os.Args[2])
	default:
		tier := "quick"
		if len(os.Args) > 2 {
			tier = os.Args[2]
		}
		os.Exit(driverMain(os.Args[1], tier))
	}
}

func envInt(name string, def int64) int64 {
	if s := os.Getenv(name); s != "" {
		if v, err := strconv.ParseInt(s, 10, 64); err == nil {
			return v
		}
	}
	return def
}

func workerMain(a []string) {
	prop, tier := a[0], a[1]
	i, _ := strconv.Atoi(a[2])
	n, _ := strconv.Atoi(a[3])
	c := checks[prop]
	if c == nil {
		fmt.Fprintln(os.Stderr, "unknown property", prop)
		os.Exit(3)
	}
	capS := envInt("VERIF_CAP_S", 0)
	if capS == 0 {
		if tier == "thorough" {
			capS = 3000
		} else {
			capS = 420
		}
	}
	w := &W{Prop: prop, Tier: tier, Shard: i, N: n, Seed: envInt("VERIF_SEED", 0),
		distinct: map[uint64]struct{}{}, fpSeen: map[string]int{}, harnessName: c.name,
		deadline: time.Now().Add(time.Duration(capS) * time.Second), sampleBudget: 3}
	w.cur = openCur(os.Getenv("VERIF_CURFILE"))
	// safety net: a runaway allocation ends this worker instead of the machine
	lim := syscall.Rlimit{Cur: 20 << 30, Max: 20 << 30}
	syscall.Setrlimit(syscall.RLIMIT_AS, &lim)
	go watchdog(w.cur)
	c.body(w)
	w.finish()
}

// watchdog ends the worker when no new case was started for hangAfter: a case that
// normally takes microseconds is then stuck in a loop. The driver names the case from the
// cur file and confirms it by replaying it in a fresh process before reporting.
const hangAfter = 100 * time.Second

func watchdog(c *curFile) {
	last := c.Ticks()
	lastChange := time.Now()
	for {
		time.Sleep(2 * time.Second)
		if t := c.Ticks(); t != last {
			last, lastChange = t, time.Now()
			continue
		}
		if time.Since(lastChange) > hangAfter {
			fmt.Fprintln(os.Stderr, "fatal error: HANG no case completed for", hangAfter)
			pprof.Lookup("goroutine").WriteTo(os.Stderr, 1)
			os.Exit(4)
		}
	}
}

// ---- driver ----

type knownFile struct {
	Findings []struct {
		Property    string `json:"property"`
		Fingerprint string `json:"fingerprint"`
		What        string `json:"what"`
	} `json:"findings"`
	Fixed []string `json:"fixed"`
}

func verifDir() string {
	if d := os.Getenv("VERIF_DIR"); d != "" {
		return d
	}
	return "/verif"
}

func driverMain(prop, tier string) int {
	c := checks[prop]
	if c == nil {
		fmt.Fprintln(os.Stderr, "unknown property", prop)
		return 3
	}
	start := time.Now()
	n := c.workers
	if n == 0 {
		n = runtime.NumCPU()
	}
	if v := envInt("VERIF_WORKERS", 0); v > 0 {
		n = int(v)
	}
	scratch := os.Getenv("VERIF_SCRATCH")
	if scratch == "" {
		scratch = os.TempDir()
	}
	self, _ := os.Executable()
	results := make([]Result, n)
	crashed := make([]string, n)
	var wg sync.WaitGroup
	for i := 0; i < n; i++ {
		wg.Add(1)
		go func(i int) {
			defer wg.Done()
			cur := filepath.Join(scratch, fmt.Sprintf("cur.%s.%d", prop, i))
			cmd := exec.Command(self, "worker", prop, tier, strconv.Itoa(i), strconv.Itoa(n))
			cmd.Env = append(os.Environ(), "VERIF_CURFILE="+cur)
			var out, errb bytes.Buffer
			cmd.Stdout = &out
			cmd.Stderr = &errb
			err := cmd.Run()
			dec := json.NewDecoder(&out)
			derr := dec.Decode(&results[i])
			if err != nil && results[i].Fatal == "" {
				// Worker died (panic escaping recover, fault, kill). The case being run is
				// in the cur file.
				cs := readCur(cur)
				tail := errb.String()
				if len(tail) > 1500 {
					tail = tail[:700] + "\n…\n" + tail[len(tail)-700:]
				}
				crashed[i] = fmt.Sprintf("worker %d died: %v\ncase: %s\nstderr: %s", i, err, strconv.QuoteToASCII(string(cs.data)), tail)
				v := Violation{
					Property: prop, Harness: cs.harness,
					Fingerprint: prop + "/crash/" + firstPanicLine(errb.String()),
					What:        "worker process died while running this case: " + firstPanicLine(errb.String()),
					Case:        cs.data, Config: cs.config,
				}
				confirmed := confirmCrash(self, &v)
				if !confirmed && len(cs.prev) > 0 && checks[prop].seqSep != "" {
					// not reproducible alone: replay the two last inputs of the reused parser
					// state in sequence
					v2 := v
					v2.Case = append(append(append([]byte(nil), cs.prev...), checks[prop].seqSep...), cs.data...)
					v2.What = "worker process died on the second of two inputs parsed with the same reused parser state (the second alone is harmless): " + firstPanicLine(errb.String())
					if confirmCrash(self, &v2) {
						v, confirmed = v2, true
					}
				}
				if !confirmed {
					// neither the case alone nor the pair reproduces it: run the same shard once
					// more; a shard that dies twice in the same way (Go panic, memory fault, or the watchdog's
					// "no case completed") is no
					// accident of the environment (memory, signals) and is reported, because a
					// check whose workers die has explored nothing
					first := firstPanicLine(errb.String())
					cmd2 := exec.Command(self, "worker", prop, tier, strconv.Itoa(i), strconv.Itoa(n))
					cmd2.Env = append(os.Environ(), "VERIF_CURFILE="+cur)
					var out2, errb2 bytes.Buffer
					cmd2.Stdout = &out2
					cmd2.Stderr = &errb2
					if err2 := cmd2.Run(); err2 != nil && (strings.HasPrefix(first, "panic:") || strings.Contains(first, "SIGSEGV") || strings.HasPrefix(first, "unexpected fault") || strings.HasPrefix(first, "fatal error: HANG")) && firstPanicLine(errb2.String()) == first {
						v.What = fmt.Sprintf("worker %d of %d died twice in a row in the same way while exploring its share of the space (the case in the case file alone does not reproduce it): %s\n%s", i, n, first, tail)
						v.Fingerprint = prop + "/shard-crash/" + first
						confirmed = true
						results[i].Capped = true
					}
				}
				if confirmed {
					results[i].Violations = append(results[i].Violations, v)
				} else {
					crashed[i] += "\n(not reproduced by replaying the case alone: reported as unconfirmed, not as a violation)"
					if results[i].Counters == nil {
						results[i].Counters = map[string]int64{}
					}
					results[i].Counters["unconfirmed_worker_deaths"]++
					results[i].Capped = true
				}
			} else if derr != nil && results[i].Fatal == "" {
				results[i].Fatal = "worker produced no result: " + derr.Error() + " " + errb.String()
			}
			os.Remove(cur)
		}(i)
	}
	wg.Wait()

	// merge
	var m Result
	m.Counters = map[string]int64{}
	distinct := map[uint64]struct{}{}
	maxKeys := map[string]bool{}
	for i := range results {
		r := &results[i]
		m.Evaluations += r.Evaluations
		m.States += r.States
		m.Transitions += r.Transitions
		m.Validated += r.Validated
		for _, h := range r.Distinct {
			distinct[h] = struct{}{}
		}
		if len(m.Samples) < 8 {
			m.Samples = append(m.Samples, r.Samples...)
		}
		m.Violations = append(m.Violations, r.Violations...)
		for k, v := range r.Counters {
			if strings.HasPrefix(k, "max_") {
				maxKeys[k] = true
				if v > m.Counters[k] {
					m.Counters[k] = v
				}
			} else {
				m.Counters[k] += v
			}
		}
		for _, s := range r.Notes {
			dup := false
			for _, t := range m.Notes {
				if t == s {
					dup = true
				}
			}
			if !dup {
				m.Notes = append(m.Notes, s)
			}
		}
		m.Capped = m.Capped || r.Capped
		if r.Fatal != "" && m.Fatal == "" {
			m.Fatal = r.Fatal
		}
	}
	if c.post != nil && m.Fatal == "" {
		c.post(&m, tier)
	}
	if m.Fatal != "" {
		fmt.Println("HARNESS-ERROR property=" + prop + " " + m.Fatal)
		return 3
	}

	// classify violations against known findings
	var known knownFile
	if b, err := os.ReadFile(filepath.Join(verifDir(), "known_findings.json")); err == nil {
		json.Unmarshal(b, &known)
	}
	isKnown := func(v *Violation) (string, bool) {
		for _, k := range known.Findings {
			if (k.Property == v.Property || k.Property == prop) && k.Fingerprint == v.Fingerprint {
				return k.What, true
			}
		}
		return "", false
	}
	exit := 0
	nviol := 0
	printedKnown := map[string]bool{}
	printedFP := map[string]int{}
	sort.SliceStable(m.Violations, func(i, j int) bool { return len(m.Violations[i].Case) < len(m.Violations[j].Case) })
	for i := range m.Violations {
		v := &m.Violations[i]
		if what, ok := isKnown(v); ok {
			if !printedKnown[v.Fingerprint] {
				printedKnown[v.Fingerprint] = true
				fmt.Printf("KNOWN-FINDING: property=%s %s [%s]\n", prop, what, v.Fingerprint)
			}
			continue
		}
		nviol++
		exit = 1
		printedFP[v.Fingerprint]++
		if printedFP[v.Fingerprint] > 1 || len(printedFP) > 25 {
			continue
		}
		path := writeReplay(v)
		fmt.Printf("VIOLATION property=%s replay=%s\n", prop, path)
		fmt.Printf("  harness=%s config=%s fingerprint=%s\n  what: %s\n  case: %s\n", v.Harness, v.Config, v.Fingerprint, v.What, v.CaseText)
	}
	for _, cmsg := range crashed {
		if cmsg != "" {
			fmt.Println(cmsg)
		}
	}

	// evidence
	samples := make([]any, 0, len(m.Samples))
	for _, s := range m.Samples {
		samples = append(samples, s)
	}
	if len(samples) == 0 {
		samples = append(samples, "(no sample recorded)")
	}
	cov := map[string]any{
		"evaluations":                   m.Evaluations,
		"distinct_nontrivial":           len(distinct),
		"rule":                          c.rule,
		"samples":                       samples,
		"states":                        m.States,
		"transitions":                   m.Transitions,
		"traces_validated_against_impl": m.Validated,
		"exhaustive":                    !m.Capped,
		"counters":                      m.Counters,
		"workers":                       n,
	}
	if len(m.Notes) > 0 {
		cov["notes"] = m.Notes
	}
	if m.Capped {
		cov["cap_note"] = "a time cap was hit in at least one shard; counts are what was completed below it"
	}
	ev := map[string]any{
		"property_id": prop,
		"tier":        tier,
		"seed":        envInt("VERIF_SEED", 0),
		"level":       c.level,
		"coverage":    cov,
		"assumptions": c.assume,
		"wall_s":      time.Since(start).Seconds(),
		"violations":  nviol,
		"harness":     c.name,
		"src_tree":    os.Getenv("VERIF_SRC_ID"),
	}
	b, _ := json.MarshalIndent(ev, "", " ")
	evDir := filepath.Join(verifDir(), "evidence")
	if d := os.Getenv("VERIF_EVIDENCE_DIR"); d != "" {
		evDir = d
	}
	os.MkdirAll(evDir, 0o755)
	if err := os.WriteFile(filepath.Join(evDir, prop+".json"), append(b, '\n'), 0o644); err != nil {
		fmt.Println("HARNESS-ERROR cannot write evidence:", err)
		return 3
	}
	fmt.Printf("%s %s: evaluations=%d states=%d transitions=%d validated=%d distinct=%d violations=%d exhaustive=%v wall=%.1fs\n",
		prop, tier, m.Evaluations, m.States, m.Transitions, m.Validated, len(distinct), nviol, !m.Capped, time.Since(start).Seconds())
	var keys []string
	for k := range m.Counters {
		keys = append(keys, k)
	}
	sort.Strings(keys)
	for _, k := range keys {
		fmt.Printf("  %s=%d\n", k, m.Counters[k])
	}
	return exit
}

// confirmCrash replays the case in fresh processes (3 times, 90 s each); a crash or hang
// must reproduce every time to be believed.
func confirmCrash(self string, v *Violation) bool {
	c := checks[v.Property]
	if c == nil || c.replay == nil || len(v.Case) == 0 {
		return len(v.Case) > 0
	}
	path := writeReplay(v)
	for i := 0; i < 3; i++ {
		cmd := exec.Command(self, "replay", path)
		done := make(chan error, 1)
		if err := cmd.Start(); err != nil {
			return true
		}
		go func() { done <- cmd.Wait() }()
		select {
		case err := <-done:
			if err == nil {
				return false // replays cleanly
			}
		case <-time.After(40 * time.Second):
			cmd.Process.Kill()
			<-done
		}
	}
	return true
}

func firstPanicLine(s string) string {
	for _, l := range strings.Split(s, "\n") {
		if strings.HasPrefix(l, "panic:") || strings.HasPrefix(l, "fatal error:") || strings.Contains(l, "SIGSEGV") || strings.HasPrefix(l, "unexpected fault") {
			if len(l) > 120 {
				l = l[:120]
			}
			return l
		}
	}
	return "killed"
}

func writeReplay(v *Violation) string {
	b, _ := json.MarshalIndent(v, "", " ")
	h := sha256.Sum256(b)
	dir := filepath.Join(verifDir(), "replays")
	os.MkdirAll(dir, 0o755)
	p := filepath.Join(dir, v.Property+"-"+hex.EncodeToString(h[:6])+".json")
	os.WriteFile(p, b, 0o644)
	return p
}

func replayMain(path string) {
	b, err := os.ReadFile(path)
	if err != nil {
		fmt.Println(err)
		os.Exit(3)
	}
	var v Violation
	if err := json.Unmarshal(b, &v); err != nil {
		fmt.Println(err)
		os.Exit(3)
	}
	c := checks[v.Property]
	if c == nil || c.replay == nil {
		fmt.Println("no replay for", v.Property)
		os.Exit(3)
	}
	r1 := c.replay(&v)
	r2 := c.replay(&v)
	if r1 != r2 {
		fmt.Println("NON-DETERMINISTIC replay:\n", r1, "\n", r2)
		os.Exit(3)
	}
	fmt.Println("case:", strconv.QuoteToASCII(string(v.Case)), "config:", v.Config)
	fmt.Println(r1)
	if strings.HasPrefix(r1, "OK") {
		os.Exit(0)
	}
	fmt.Printf("VIOLATION property=%s replay=%s\n", v.Property, path)
	os.Exit(1)
}
