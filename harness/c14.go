package main

import (
	"fmt"
	"strings"

	simdjson "github.com/minio/simdjson-go"

	"verif/ref"
)

// c14Ops: every container x every member subset x every call form, SetNull on containers,
// and a small set of replacements so deletions and replacements interleave.
func c14Ops(docs []*ref.Node, depth int) []editOp {
	var ops []editOp
	for _, p := range containerPositions(docs) {
		n := nodeAt(docs, p)
		m := len(n.Elems)
		if m > 5 {
			m = 5
		}
		for r := 0; r < nRoutes; r++ {
			if n.K == ref.KArr {
				for s := uint32(0); s < 1<<uint(m); s++ {
					ops = append(ops, editOp{kind: opArrDelete, p: p, route: r, subset: s})
				}
			} else {
				uniq := uniqueKeys(n)
				for s := uint32(0); s < 1<<uint(m); s++ {
					ops = append(ops, editOp{kind: opObjDelete, p: p, route: r, subset: s, form: 0})
					if uniq && s != 0 {
						ops = append(ops, editOp{kind: opObjDelete, p: p, route: r, subset: s, form: 1})
						ops = append(ops, editOp{kind: opObjDelete, p: p, route: r, subset: s, form: 2})
					}
				}
				ops = append(ops, editOp{kind: opObjDelete, p: p, route: r, form: 3})
			}
			if len(p) > 1 {
				ops = append(ops, editOp{kind: opSetNull, p: p, route: r})
			}
		}
	}
	for _, p := range valuePositions(docs) {
		k := nodeAt(docs, p).K
		if k == ref.KArr || k == ref.KObj {
			continue
		}
		for _, kind := range []int{opSetNull, opSetInt, opSetStrEsc} {
			ops = append(ops, editOp{kind: kind, p: p, route: depth % nRoutes})
		}
	}
	return ops
}

func c14Params(w *W) *histParams {
	d := 2
	if w != nil && w.Thorough() {
		d = 3
	}
	return &histParams{prop: "C14", maxDepth: d, ops: c14Ops, seeds: editSeeds,
		check: func(pj *simdjson.ParsedJson, docs []*ref.Node) (string, string) {
			return stateAgreement(pj, docs, simdjson.CompressDefault)
		}}
}

func c14Body(w *W) {
	hp := c14Params(w)
	w.Note(fmt.Sprintf("BFS over deletion/replacement histories to depth %d on %d seeds x {copy,no-copy}: every container x every member subset x call forms {predicate, filter, both, both nil} x 3 routes; SetNull on containers; interleaved Set* replacements", hp.maxDepth, len(hp.seeds)))
	exploreHistories(w, hp)
	// one large deletion: a gap longer than the serializer's 64 Ki tag block
	w.res.States++
	if w.Mine() {
		var sb strings.Builder
		sb.WriteString("[[")
		for i := 0; i < 40000; i++ {
			fmt.Fprintf(&sb, "%d,", i)
		}
		sb.WriteString(`0],"after the gap",{"k":[1,2]},3]`)
		c := Cfg{hasAVX512, true}
		pj, docs := mustParse(w, sb.String(), false, c)
		for _, o := range []editOp{{kind: opArrDelete, p: vpath{0}, route: 0, subset: 0b1}, {kind: opObjDelete, p: vpath{0, 1}, route: 1, form: 3}} {
			nd, _ := applyModel(docs, o)
			aerr, prot := applyReal(pj, docs, o)
			w.res.Transitions++
			w.res.Evaluations++
			w.res.Validated++
			what, api := "", ""
			if aerr != nil || prot != "" {
				what, api = fmt.Sprint(aerr, prot), "apply"
			} else {
				docs = nd
				what, api = stateAgreement(pj, docs, simdjson.CompressDefault)
			}
			if what != "" {
				w.Violate(Violation{Harness: "C14-large-gap", Fingerprint: "C14/large-gap/" + api, What: fmt.Sprintf("after deleting a 40001-element array (80003 tape entries) from a large document: %s: %s", api, what), Case: []byte("large-gap"), CaseText: "[[0..40000],\"after the gap\",{\"k\":[1,2]},3] " + o.String(), Config: c.String()})
				break
			}
		}
	}
	w.Sample(histText(editSeeds[1], Cfg{hasAVX512, true}, []editOp{{kind: opArrDelete, p: vpath{0}, route: 0, subset: 0b000110}, {kind: opObjDelete, p: vpath{0, 1}, route: 1, form: 3}}))
}

func init() {
	register(&check{
		prop: "C14", name: "delete-histories", level: "model_checking",
		rule:   "Explicit-state breadth-first search over histories of Object/Array.DeleteElems (every container x every member subset x 4 call forms x 3 navigation routes), SetNull on containers and interleaved Set* replacements on the real tape, deduplicated on exact (Tape, Strings) bytes. Oracles per transition: callback log = each (filtered) member exactly once, in order, with its own key and value; per reached state: Advance, AdvanceIter, AdvanceInto, ForEach, NextElement(Bytes), Object.Parse, Interface/Map, FindKey/FindPath, MarshalJSON (Iter root + every inner value, Array, Elements) and a serialize round trip all equal the model minus exactly the requested members. states=distinct tapes, transitions=real calls, traces_validated=transitions judged.",
		assume: []string{"delete model in harness/edit.go; filter forms are applied to objects with unique keys only (the documented precondition)"},
		body:   c14Body,
		replay: func(v *Violation) string { return replayHistory(v, c14Params(nil)) },
	})
}
