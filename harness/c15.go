package main

import (
	"encoding/json"
	"fmt"
	"os"
	"os/exec"
	"path/filepath"
	"strings"

	simdjson "github.com/minio/simdjson-go"

	"verif/ref"
)

type c15Doc struct {
	name string
	text []byte
}

func c15Docs() []c15Doc {
	dense := func(n int) string {
		var sb strings.Builder
		for i := 0; i < n; i++ {
			fmt.Fprintf(&sb, `{"i":%d,"s":"v%d"},`, i, i*7)
		}
		return sb.String()
	}
	d := dense(1400) // ~ 28 KB, > 8 KiB: concurrent path, ~10 index buffers
	return []c15Doc{
		{"small-ok", []byte(`{"a":[1,"x"],"b":{"c":null}}`)},
		{"small-ok-2", []byte(`["longer string value here",2.5,true]`)},
		{"small-stage2-error", []byte(`[1,,2]`)},
		{"small-stage1-error", []byte(`{"a":"x`)},
		{"async-ok", []byte("[" + d + "0]")},
		{"async-stage2-error-early", []byte("[x," + d + "0]")},
		{"async-stage2-error-late", []byte("[" + d + "x]")},
		{"async-stage1-error", []byte("[" + d + `"unterminated]`)},
		{"async-long-string", []byte(`["` + strings.Repeat("a", 20000) + `","b"]`)},
		{"nd-ok", []byte("{\"a\":1}\n[true,false]\n{\"b\":{\"c\":\"d\"}}")},
		{"nd-bad", []byte("{\"a\":1}\n[true,\n{}")},
		// below the threshold but several index buffers, rejected by stage 2 while the first
		// buffer is being consumed: the later buffers are still queued when the call fails
		{"dense-small-stage2-error-early", []byte("[1,,1," + strings.Repeat("1,", 1900) + "1]")},
		{"dense-small-ok", []byte("[" + strings.Repeat("1,", 1900) + "1]")},
		// above the threshold, accepted by stage 1 (ends in a bracket) but one scope is never
		// closed: rejected by the sanity check at the very end of stage 2, not by its fail exit
		{"async-scope-left-open", []byte("[[" + d + "0]")},
		{"small-scope-left-open", []byte(`{"a":[1,2]`)},
	}
}

// c15Op: kind 0 Parse, 1 ParseND, 2 edit, 3 Deserialize into cur
type c15Op struct {
	Kind    int  `json:"kind"`
	Doc     int  `json:"doc"`
	Copy    bool `json:"copy"`
	Default bool `json:"default,omitempty"` // call without any option (copying is the default)
}

func (o c15Op) str(docs []c15Doc) string {
	switch o.Kind {
	case 0:
		if o.Default {
			return fmt.Sprintf("Parse(%s) [no options]", docs[o.Doc].name)
		}
		return fmt.Sprintf("Parse(%s, copy=%v)", docs[o.Doc].name, o.Copy)
	case 1:
		if o.Default {
			return fmt.Sprintf("ParseND(%s) [no options]", docs[o.Doc].name)
		}
		return fmt.Sprintf("ParseND(%s, copy=%v)", docs[o.Doc].name, o.Copy)
	case 2:
		return []string{"SetStringBytes on first scalar", "DeleteElems first member of first container", "SetNull first container member"}[o.Doc]
	}
	return fmt.Sprintf("Deserialize(blob of %s, into reused)", docs[o.Doc].name)
}

type c15Expect struct {
	ok    bool
	exact string
}

type c15ctx struct {
	docs   []c15Doc
	blobs  map[int][]byte
	expect map[string]c15Expect // fresh-object outcome per (kind, doc, copy)
}

func outcome(pj *simdjson.ParsedJson, err error, big bool) c15Expect {
	if err != nil || pj == nil {
		return c15Expect{ok: false}
	}
	docs, werr := walkFlat(pj)
	if werr != nil {
		return c15Expect{ok: true, exact: "UNREADABLE: " + werr.Error()}
	}
	e := c15Expect{ok: true, exact: renderDocs(docs, renderExact)}
	if !big {
		// all other walkers must agree with the flat walk
		if what, walker := compareWalkers(pj, mkExpect(docs), true); what != "" {
			e.exact = "WALKERS DISAGREE (" + walker + "): " + what
		}
	}
	if terr := tapeErr(pj, ref.TapeOpts{AllowNop: true}); terr != nil {
		e.exact = "BAD TAPE: " + terr.Error()
	}
	return e
}

func newC15(w *W) *c15ctx {
	c := &c15ctx{docs: c15Docs(), blobs: map[int][]byte{}, expect: map[string]c15Expect{}}
	for di, d := range c.docs {
		if d.text == nil {
			continue
		}
		for _, cp := range []bool{true, false} {
			for kind := 0; kind < 2; kind++ {
				pj, err, p := doParse(Cfg{hasAVX512, cp}, d.text, nil, kind == 1)
				if p != "" {
					w.Fatal("panic on fresh parse of %s: %s", d.name, p)
				}
				c.expect[fmt.Sprint(kind, di, cp)] = outcome(pj, err, len(d.text) > 4096)
				if kind == 0 && cp && err == nil {
					s := simdjson.NewSerializer()
					b, _ := serialize(s, pj)
					c.blobs[di] = append([]byte(nil), b...)
				}
			}
		}
	}
	// a blob whose tape has NOP gaps from in-place edits (index -1)
	{
		pj, docs := mustParse(w, `[1,"a",[2,3],{"x":1,"y":[4,5],"z":2},true,null]`, false, Cfg{hasAVX512, true})
		applyOps(w, pj, docs, []editOp{{kind: opArrDelete, p: vpath{0}, route: 0, subset: 0b100001}, {kind: opObjDelete, p: vpath{0, 2}, route: 0, subset: 0b110, form: 0}, {kind: opSetNull, p: vpath{0, 1}, route: 1}})
		s := simdjson.NewSerializer()
		b, _ := serialize(s, pj)
		c.docs = append(c.docs, c15Doc{"edited-with-gaps", nil})
		c.blobs[len(c.docs)-1] = append([]byte(nil), b...)
	}
	for di, b := range c.blobs {
		s := simdjson.NewSerializer()
		out, err, _ := deserialize(s, b, nil)
		c.expect[fmt.Sprint(3, di, true)] = outcome(out, err, len(c.docs[di].text) > 4096)
	}
	return c
}

// editCur applies a generic edit to whatever document cur holds.
func editCur(cur *simdjson.ParsedJson, which int) {
	if cur == nil {
		return
	}
	defer func() { recover() }()
	docs, err := walkFlat(cur)
	if err != nil || len(docs) == 0 {
		return
	}
	switch which {
	case 0:
		for _, p := range valuePositions(docs) {
			if setAllowed(opSetStrBytes, nodeAt(docs, p).K) {
				applyReal(cur, docs, editOp{kind: opSetStrBytes, p: p, route: 0})
				return
			}
		}
	case 1:
		for _, p := range containerPositions(docs) {
			n := nodeAt(docs, p)
			if len(n.Elems) > 0 {
				k := opArrDelete
				if n.K == ref.KObj {
					k = opObjDelete
				}
				applyReal(cur, docs, editOp{kind: k, p: p, route: 0, subset: 1})
				return
			}
		}
	case 2:
		for _, p := range valuePositions(docs) {
			k := nodeAt(docs, p).K
			if k == ref.KArr || k == ref.KObj {
				applyReal(cur, docs, editOp{kind: opSetNull, p: p, route: 1})
				return
			}
		}
	}
}

// run executes one history on one reused object; returns the first call whose outcome
// differs from the same call on fresh objects.
//
// byValue: the caller keeps its ParsedJson by value (keep := *result; Parse(b, &keep)), as
// long-lived structs embedding a ParsedJson do. Unlike the pointer a call returned, such a
// copy keeps the parser state attached across a failed call.
func (c *c15ctx) run(hist []c15Op, byValue bool) (what, fp string) {
	var cur *simdjson.ParsedJson
	keepResult := func(pj *simdjson.ParsedJson) {
		if byValue {
			k := *pj
			cur = &k
		} else {
			cur = pj
		}
	}
	ser := simdjson.NewSerializer()
	for i, o := range hist {
		switch o.Kind {
		case 0, 1:
			d := c.docs[o.Doc]
			// private copy of the input: Deserialize into a reused object writes its message
			// section into that object's Message, which aliases the caller's input buffer
			in := append([]byte(nil), d.text...)
			var pj *simdjson.ParsedJson
			var err error
			var p string
			if o.Default {
				pj, err, p = doParseDefault(hasAVX512, in, cur, o.Kind == 1)
			} else {
				pj, err, p = doParse(Cfg{hasAVX512, o.Copy}, in, cur, o.Kind == 1)
			}
			if p != "" {
				return fmt.Sprintf("call %d %s panicked with a reused object: %s", i, o.str(c.docs), p), "panic"
			}
			got := outcome(pj, err, len(d.text) > 4096)
			if got.ok && (o.Copy || o.Default) {
				// copy mode: the result must not depend on the input buffer any more
				for k := range in {
					in[k] = '#'
				}
				if after := outcome(pj, err, true); after.exact != got.exact && !strings.HasPrefix(got.exact, "WALKERS") {
					return fmt.Sprintf("call %d %s with reuse: the result changed when the input buffer was overwritten afterwards (strings were not copied): %s", i, o.str(c.docs), clip(after.exact)), "copy-mode-lost"
				}
			}
			want := c.expect[fmt.Sprint(o.Kind, o.Doc, o.Copy || o.Default)]
			if got.ok != want.ok {
				return fmt.Sprintf("call %d %s with reuse: err=%v; without reuse it %s", i, o.str(c.docs), err, map[bool]string{true: "succeeds", false: "fails"}[want.ok]), "outcome"
			}
			if got.ok && got.exact != want.exact {
				return fmt.Sprintf("call %d %s with reuse exposes %s; without reuse %s", i, o.str(c.docs), clip(got.exact), clip(want.exact)), "document"
			}
			if err == nil {
				keepResult(pj)
			}
		case 2:
			editCur(cur, o.Doc)
		case 3:
			b, okb := c.blobs[o.Doc]
			if !okb {
				continue
			}
			out, err, p := deserialize(ser, b, cur)
			if p != "" {
				return fmt.Sprintf("call %d %s panicked: %s", i, o.str(c.docs), p), "panic"
			}
			got := outcome(out, err, len(c.docs[o.Doc].text) > 4096)
			want := c.expect[fmt.Sprint(3, o.Doc, true)]
			if got.ok != want.ok || got.exact != want.exact {
				return fmt.Sprintf("call %d %s into a reused destination gives err=%v %s; into nil %s", i, o.str(c.docs), err, clip(got.exact), clip(want.exact)), "deserialize"
			}
			if err == nil {
				keepResult(out)
			}
		}
	}
	return "", ""
}

func c15Alphabet(c *c15ctx) []c15Op {
	var ops []c15Op
	for di, d := range c.docs {
		if d.text == nil {
			continue
		}
		for _, cp := range []bool{true, false} {
			if !strings.HasPrefix(d.name, "nd-") {
				ops = append(ops, c15Op{Kind: 0, Doc: di, Copy: cp})
			}
			if strings.HasPrefix(d.name, "nd-") || d.name == "small-ok" || d.name == "async-ok" {
				ops = append(ops, c15Op{Kind: 1, Doc: di, Copy: cp})
			}
		}
	}
	ops = append(ops, c15Op{Kind: 0, Doc: 9, Copy: true}) // Parse on an NDJSON text: must fail
	// calls without options: copying is the documented default, whatever the reused object did before
	ops = append(ops, c15Op{Kind: 0, Doc: 0, Default: true}, c15Op{Kind: 0, Doc: 1, Default: true}, c15Op{Kind: 0, Doc: 4, Default: true}, c15Op{Kind: 1, Doc: 9, Default: true})
	for e := 0; e < 3; e++ {
		ops = append(ops, c15Op{Kind: 2, Doc: e})
	}
	for di := range c.blobs {
		if di == 0 || di == 4 || di == 8 || c.docs[di].text == nil {
			ops = append(ops, c15Op{Kind: 3, Doc: di})
		}
	}
	return ops
}

func c15Body(w *W) {
	c := newC15(w)
	alpha := c15Alphabet(c)
	depth := 3
	w.Note(fmt.Sprintf("histories: every sequence of <= %d operations over %d ops {Parse x 13 documents (small/async/dense-below-threshold, ok / stage-1 error / stage-2 error early, late and at the final open-scope check, long string) x copy/no-copy, ParseND x 4 documents x 2, three in-place edits of the current result, Deserialize of 3 blobs into the current object} on one reused ParsedJson (and one reused Serializer), the reused object kept either as the pointer the previous call returned or by value (keep := *result; Parse(b, &keep): the parser state then survives failed calls); each reuse call is compared with the same call on fresh objects", depth, len(alpha)))
	var hist []c15Op
	var rec func(d int)
	rec = func(d int) {
		if d > 0 && hist[d-1].Kind != 2 {
			w.res.Evaluations++
			w.res.Validated++
			enc, _ := json.Marshal(hist)
			w.cur.Set("C15-history", "-", enc)
			for _, byValue := range []bool{false, true} {
				what, fp := c.run(hist, byValue)
				if what == "" {
					continue
				}
				again := 0
				for k := 0; k < 5; k++ {
					if w2, _ := c.run(hist, byValue); w2 != "" {
						again++
					}
				}
				what += fmt.Sprintf(" [re-run in the same process: %d of 5 runs disagree again]", again)
				var parts []string
				for _, o := range hist {
					parts = append(parts, o.str(c.docs))
				}
				cfg := "reused object kept as the pointer the previous call returned"
				if byValue {
					cfg = "by-value"
					what = "[reused object kept by value: keep := *result; Parse(b, &keep)] " + what
				}
				w.Violate(Violation{Harness: "C15-history", Fingerprint: "C15/" + fp, What: what, Case: enc, CaseText: strings.Join(parts, "; "), Config: cfg})
				return
			}
			if d >= 2 {
				w.Distinct(hashBytes(enc))
			}
		}
		w.res.States++
		if d == depth {
			return
		}
		for _, o := range alpha {
			if d == 0 && !w.Mine() {
				continue
			}
			if d == depth-1 && o.Kind == 2 {
				continue
			}
			if w.Expired() || w.TooManyViolations() {
				return
			}
			hist = append(hist, o)
			w.res.Transitions++
			rec(d + 1)
			hist = hist[:len(hist)-1]
		}
	}
	rec(0)
	c15SerializerReuse(w)
	w.Sample("history sample: Parse(async-stage2-error-late, copy=true); Parse(small-ok, copy=false); ParseND(nd-ok, copy=true)")
}

func c15Replay(v *Violation) string {
	w := &W{Prop: "C15", distinct: map[uint64]struct{}{}, fpSeen: map[string]int{}, cur: &curFile{}}
	if v.Harness == "C15-serializer-reuse" {
		var h []serOp
		if err := json.Unmarshal(v.Case, &h); err != nil {
			return "cannot decode history"
		}
		if what, _ := runSerHistory(c11Tapes(w), nil, h, nil); what != "" {
			return "FAIL " + what
		}
		return "OK"
	}
	c := newC15(w)
	var hist []c15Op
	if err := json.Unmarshal(v.Case, &hist); err != nil {
		return "cannot decode history"
	}
	if what, _ := c.run(hist, v.Config == "by-value"); what != "" {
		return "FAIL " + what
	}
	return "OK"
}

func init() {
	register(&check{
		prop: "C15", name: "reuse-histories", level: "model_checking",
		rule:   "Every history of <= 3 operations over the call alphabet (Parse/ParseND on small and concurrent-path documents that succeed, fail in stage 1, fail in stage 2 early or late, hold a 20000-byte string; both string modes; in-place edits of the current result; Deserialize into the current object with a reused Serializer) is executed on ONE reused ParsedJson with the real code; after every reuse call the outcome and the exact exposed document (flat walk + all walkers + marshal + tape format) must equal those of the same call made with nil reuse / fresh objects. states=history prefixes, transitions=operations appended, traces_validated=histories executed; distinct_nontrivial=distinct histories of >= 2 operations.",
		assume: []string{"the Go scheduler decides the interleaving of the two stages for concurrent-path documents (C07 explores those schedules)", "after a failed call the API returns no object, so nothing of the failed call can be reused; the harness passes the last successful result, as a caller would"},
		body:   c15Body,
		replay: c15Replay,
		post:   c15Post,
	})
}

// c15Post runs the scheduled part (C15S, instrumented binary) and merges its result.
func c15Post(m *Result, tier string) {
	bin := os.Getenv("VERIF_SCHED_BIN")
	if bin == "" {
		m.Fatal = "instrumented binary not provided (VERIF_SCHED_BIN)"
		return
	}
	sub := filepath.Join(os.Getenv("VERIF_SCRATCH"), "sub-evidence")
	cmd := exec.Command(bin, "C15S", tier)
	cmd.Env = append(os.Environ(), "VERIF_EVIDENCE_DIR="+sub, "GOMAXPROCS=1")
	out, err := cmd.CombinedOutput()
	text := string(out)
	if ee, ok := err.(*exec.ExitError); ok && ee.ExitCode() == 3 || (err != nil && !strings.Contains(text, "C15S "+tier+":")) {
		m.Fatal = "scheduled part of C15 failed: " + clip(text)
		return
	}
	b, rerr := os.ReadFile(filepath.Join(sub, "C15S.json"))
	if rerr != nil {
		m.Fatal = "scheduled part of C15 wrote no evidence: " + clip(text)
		return
	}
	var ev struct {
		Coverage struct {
			Evaluations int64 `json:"evaluations"`
			States      int64 `json:"states"`
			Transitions int64 `json:"transitions"`
			Validated   int64 `json:"traces_validated_against_impl"`
			Exhaustive  bool  `json:"exhaustive"`
			Notes       []string
		} `json:"coverage"`
	}
	json.Unmarshal(b, &ev)
	m.Evaluations += ev.Coverage.Evaluations
	m.States += ev.Coverage.States
	m.Transitions += ev.Coverage.Transitions
	m.Validated += ev.Coverage.Validated
	if !ev.Coverage.Exhaustive {
		m.Capped = true
	}
	if m.Counters == nil {
		m.Counters = map[string]int64{}
	}
	m.Counters["scheduled_deserialize_reuse_schedules"] = ev.Coverage.Evaluations
	m.Notes = append(m.Notes, "scheduled part (instrumented build, controlled scheduler): "+strings.Join(ev.Coverage.Notes, " "))
	// violations of the sub-run: replay files were written by it
	lines := strings.Split(text, "\n")
	for i, l := range lines {
		if strings.HasPrefix(l, "VIOLATION property=C15S replay=") {
			path := strings.TrimPrefix(l, "VIOLATION property=C15S replay=")
			var v Violation
			if rb, err := os.ReadFile(path); err == nil && json.Unmarshal(rb, &v) == nil {
				_ = i
				m.Violations = append(m.Violations, v) // keeps property C15S so that replay goes to the instrumented binary
			}
		}
	}
}

// c15SerializerReuse: one Serializer across calls and mode changes, with and without a
// failing (panicking) Serialize in the middle; every blob must denote its tape for a fresh
// reader and every Deserialize on the reused Serializer must give the fresh result.
func c15SerializerReuse(w *W) {
	ts := c11Tapes(w)
	var small []int
	corrupt := -1
	for i, t := range ts {
		if t.corrupt {
			corrupt = i
		} else if !t.big && !t.aux && (len(small) < 5 || strings.HasPrefix(t.name, "collide-")) {
			small = append(small, i)
		}
	}
	w.Note("Serializer reuse: Mode(m1); Serialize(a); [Serialize(tape with unknown tag: panics)]; Mode(m2); Serialize(b); Deserialize(last blob, reused destination) for 8 small tapes a, b (incl. three whose strings collide in the dedup table) and all mode pairs")
	for m1 := 0; m1 < 4; m1++ {
		for m2 := 0; m2 < 4; m2++ {
			for _, a := range small {
				for _, b := range small {
					for withFail := 0; withFail < 2; withFail++ {
						w.res.States++
						if !w.Mine() || w.Expired() {
							continue
						}
						h := []serOp{{Kind: 1, A: m1}, {Kind: 0, A: a}}
						if withFail == 1 && corrupt >= 0 {
							h = append(h, serOp{Kind: 0, A: corrupt})
						}
						h = append(h, serOp{Kind: 1, A: m2}, serOp{Kind: 0, A: b}, serOp{Kind: 2, A: -1, Dst: 1})
						w.res.Transitions += int64(len(h))
						w.res.Evaluations++
						w.res.Validated++
						if what, fp := runSerHistory(ts, nil, h, nil); what != "" {
							var parts []string
							for _, o := range h {
								parts = append(parts, o.str(ts, nil))
							}
							enc, _ := json.Marshal(h)
							w.Violate(Violation{Harness: "C15-serializer-reuse", Fingerprint: "C15/serializer/" + fp, What: what, Case: enc, CaseText: strings.Join(parts, "; "), Config: "-"})
						}
					}
				}
			}
		}
	}
	// scratch buffers sized by a big stream, then small ones on the same Serializer
	w.Note("Serializer reuse after a big stream: Serialize(70000 tags); Deserialize; Serialize(tiny); Deserialize; Serialize(s); Deserialize for every small tape s, modes none and default")
	bigIdx := -1
	for i, t := range ts {
		if t.big && bigIdx < 0 {
			bigIdx = i
		}
	}
	if bigIdx >= 0 {
		for _, si := range small {
			for _, m := range []int{0, 2} {
				w.res.States++
				if !w.Mine() || w.Expired() {
					continue
				}
				h := []serOp{{Kind: 1, A: m}, {Kind: 0, A: bigIdx}, {Kind: 2, A: -1, Dst: 0}, {Kind: 0, A: small[0]}, {Kind: 2, A: -1, Dst: 1}, {Kind: 0, A: si}, {Kind: 2, A: -1, Dst: 1}}
				w.res.Transitions += int64(len(h))
				w.res.Evaluations++
				w.res.Validated++
				if what, fp := runSerHistory(ts, nil, h, nil); what != "" {
					enc, _ := json.Marshal(h)
					w.Violate(Violation{Harness: "C15-serializer-reuse", Fingerprint: "C15/serializer-reuse/" + fp, What: what, Case: enc, CaseText: "big stream, then small ones on one Serializer", Config: modeNames[m]})
				}
			}
		}
	}
}
