package main

import (
	"errors"
	"fmt"
	"math"
	"math/big"
	"strings"

	"github.com/klauspost/cpuid/v2"
	simdjson "github.com/minio/simdjson-go"

	"verif/ref"
)

// Cfg selects kernel family and string mode.
type Cfg struct {
	AVX512 bool
	Copy   bool
}

func (c Cfg) String() string {
	k := "avx2"
	if c.AVX512 {
		k = "avx512"
	}
	if c.Copy {
		return k + "/copy"
	}
	return k + "/nocopy"
}

func parseCfg(s string) Cfg {
	return Cfg{AVX512: strings.HasPrefix(s, "avx512"), Copy: strings.HasSuffix(s, "/copy")}
}

var hasAVX512 = cpuid.CPU.Has(cpuid.AVX512F)

func allCfgs() []Cfg {
	if hasAVX512 {
		return []Cfg{{true, true}, {false, true}, {true, false}, {false, false}}
	}
	return []Cfg{{false, true}, {false, false}}
}

func setKernel(avx512 bool) {
	if !hasAVX512 {
		return
	}
	if avx512 {
		cpuid.CPU.Enable(cpuid.AVX512F)
	} else {
		cpuid.CPU.Disable(cpuid.AVX512F)
	}
}

// doParse runs Parse/ParseND under cfg, turning a panic into an error string.
func doParse(c Cfg, in []byte, reuse *simdjson.ParsedJson, nd bool) (pj *simdjson.ParsedJson, err error, panicked string) {
	setKernel(c.AVX512)
	defer func() {
		if r := recover(); r != nil {
			panicked = fmt.Sprint(r)
			pj, err = nil, nil
		}
	}()
	if nd {
		pj, err = simdjson.ParseND(in, reuse, simdjson.WithCopyStrings(c.Copy))
	} else {
		pj, err = simdjson.Parse(in, reuse, simdjson.WithCopyStrings(c.Copy))
	}
	return
}

// doParseDefault calls Parse/ParseND WITHOUT any option (the documented default: strings
// are copied).
func doParseDefault(avx512 bool, in []byte, reuse *simdjson.ParsedJson, nd bool) (pj *simdjson.ParsedJson, err error, panicked string) {
	setKernel(avx512)
	defer func() {
		if r := recover(); r != nil {
			panicked = fmt.Sprint(r)
			pj, err = nil, nil
		}
	}()
	if nd {
		pj, err = simdjson.ParseND(in, reuse)
	} else {
		pj, err = simdjson.Parse(in, reuse)
	}
	return
}

// ---- walkers: API → reference tree ----

type walkOpt struct {
	top, arr, obj int
	// reuseDst: every call that accepts a destination (Root, Object, Array, Object.Parse,
	// FindKey) gets a long-lived one that was last used for an earlier document
	reuseDst bool
}

// long-lived destinations, one per nesting depth (a nested call must not clobber its parent's)
var (
	dstRoots [64]simdjson.Iter
	dstObjs  [64]simdjson.Object
	dstArrs  [64]simdjson.Array
	dstElems [64]*simdjson.Elements
)

func (o walkOpt) String() string {
	r := ""
	if o.reuseDst {
		r = " [destinations reused across documents]"
	}
	return r + fmt.Sprintf("top=%s arr=%s obj=%s",
		[]string{"Advance+Root", "ParsedJson.ForEach"}[o.top],
		[]string{"Array.Iter+Advance", "Array.Iter+AdvanceIter", "Array.ForEach"}[o.arr],
		[]string{"NextElementBytes", "NextElement", "Object.Parse", "Object.ForEach"}[o.obj])
}

var walkCombos = []walkOpt{{0, 0, 0, false}, {0, 1, 1, false}, {1, 2, 3, false}, {0, 0, 2, false}, {0, 0, 0, true}, {0, 1, 2, true}}

var errBudget = errors.New("walker step budget exhausted (non-terminating traversal)")

type walker struct {
	o      walkOpt
	budget int
	depth  int
}

func newWalker(o walkOpt, tapeLen int) *walker { return &walker{o: o, budget: 4*tapeLen + 64} }

func (w *walker) step() error {
	w.budget--
	if w.budget < 0 {
		return errBudget
	}
	return nil
}

// walkDoc returns one node per root element.
func walkDoc(pj *simdjson.ParsedJson, o walkOpt) (docs []*ref.Node, err error) {
	defer func() {
		if r := recover(); r != nil {
			err = fmt.Errorf("PANIC in walker %v: %v", o, r)
		}
	}()
	w := newWalker(o, len(pj.Tape))
	switch o.top {
	case 0:
		it := pj.Iter()
		for {
			if err := w.step(); err != nil {
				return nil, err
			}
			pk := it.PeekNext()
			typ := it.Advance()
			if pk != typ {
				return nil, fmt.Errorf("top level: PeekNext() = %v, then Advance() = %v", pk, typ)
			}
			if typ == simdjson.TypeNone {
				break
			}
			if typ != simdjson.TypeRoot {
				return nil, fmt.Errorf("top level: expected root, got %v", typ)
			}
			if t2 := it.Type(); t2 != typ {
				return nil, fmt.Errorf("top level: Advance() returned %v but Type() says %v", typ, t2)
			}
			var rdst *simdjson.Iter
			if o.reuseDst {
				rdst = &dstRoots[0]
			}
			_, inner, err := it.Root(rdst)
			if err != nil {
				return nil, fmt.Errorf("Root(): %w", err)
			}
			n, err := w.value(inner)
			if err != nil {
				return nil, err
			}
			docs = append(docs, n)
			if o.reuseDst {
				// leave the long-lived destination somewhere else than Root() put it (a few
				// entries further, with a pending skip of 1 or 2 or of a whole container)
				for k := len(docs) % 4; k > 0 && inner.Advance() != simdjson.TypeNone; k-- {
				}
			}
		}
	case 1:
		var ierr error
		err := pj.ForEach(func(i simdjson.Iter) error {
			n, err := w.value(&i)
			if err != nil {
				ierr = err
				return err
			}
			docs = append(docs, n)
			return nil
		})
		if ierr != nil {
			return nil, ierr
		}
		if err != nil {
			return nil, fmt.Errorf("ParsedJson.ForEach: %w", err)
		}
	}
	return docs, nil
}

// value converts the value the iterator is positioned on.
func (w *walker) value(it *simdjson.Iter) (*ref.Node, error) {
	if err := w.step(); err != nil {
		return nil, err
	}
	switch t := it.Type(); t {
	case simdjson.TypeNull:
		return ref.Null(), nil
	case simdjson.TypeBool:
		b, err := it.Bool()
		if err != nil {
			return nil, fmt.Errorf("Bool(): %w", err)
		}
		return ref.Bool(b), nil
	case simdjson.TypeString:
		b, err := it.StringBytes()
		if err != nil {
			return nil, fmt.Errorf("StringBytes(): %w", err)
		}
		s, err := it.String()
		if err != nil || s != string(b) {
			return nil, fmt.Errorf("String() disagrees with StringBytes(): %q vs %q (%v)", s, b, err)
		}
		return &ref.Node{K: ref.KStr, S: append([]byte(nil), b...)}, nil
	case simdjson.TypeInt:
		v, err := it.Int()
		if err != nil {
			return nil, fmt.Errorf("Int(): %w", err)
		}
		// the float views of an integer: same number, no flags
		if f, ferr := it.Float(); ferr != nil || f != float64(v) {
			return nil, fmt.Errorf("Float() of the integer %d = %v (%v)", v, f, ferr)
		}
		if f, fl, ferr := it.FloatFlags(); ferr != nil || f != float64(v) || fl != 0 {
			return nil, fmt.Errorf("FloatFlags() of the integer %d = %v, flags %x (%v)", v, f, uint64(fl), ferr)
		}
		// the unsigned view: the same number if it is not negative, an error otherwise
		if u, uerr := it.Uint(); (v >= 0) != (uerr == nil) || (v >= 0 && u != uint64(v)) {
			return nil, fmt.Errorf("Uint() of the integer %d = %d (%v)", v, u, uerr)
		}
		return ref.Int(v), nil
	case simdjson.TypeUint:
		v, err := it.Uint()
		if err != nil {
			return nil, fmt.Errorf("Uint(): %w", err)
		}
		if f, ferr := it.Float(); ferr != nil || f != float64(v) {
			return nil, fmt.Errorf("Float() of the unsigned integer %d = %v (%v)", v, f, ferr)
		}
		if f, fl, ferr := it.FloatFlags(); ferr != nil || f != float64(v) || fl != 0 {
			return nil, fmt.Errorf("FloatFlags() of the unsigned integer %d = %v, flags %x (%v)", v, f, uint64(fl), ferr)
		}
		// the signed view: the same number if it fits int64, an error otherwise
		if n, nerr := it.Int(); (v <= math.MaxInt64) != (nerr == nil) || (v <= math.MaxInt64 && n != int64(v)) {
			return nil, fmt.Errorf("Int() of the unsigned integer %d = %d (%v)", v, n, nerr)
		}
		return ref.Uint(v), nil
	case simdjson.TypeFloat:
		v, fl, err := it.FloatFlags()
		if err != nil {
			return nil, fmt.Errorf("FloatFlags(): %w", err)
		}
		v2, err := it.Float()
		if err != nil || !sameFloat(v, v2) {
			return nil, fmt.Errorf("Float() disagrees with FloatFlags()")
		}
		n := ref.Float(v)
		n.Flag = fl.Contains(simdjson.FloatOverflowedInteger)
		if uint64(fl)&^uint64(simdjson.FloatOverflowedInteger) != 0 {
			return nil, fmt.Errorf("undefined float flag bits %x", uint64(fl))
		}
		return n, nil
	case simdjson.TypeArray:
		var adst *simdjson.Array
		if w.o.reuseDst && w.depth < len(dstArrs) {
			adst = &dstArrs[w.depth]
		}
		arr, err := it.Array(adst)
		if err != nil {
			return nil, fmt.Errorf("Array(): %w", err)
		}
		w.depth++
		defer func() { w.depth-- }()
		return w.array(arr)
	case simdjson.TypeObject:
		var odst *simdjson.Object
		if w.o.reuseDst && w.depth < len(dstObjs) {
			odst = &dstObjs[w.depth]
		}
		obj, err := it.Object(odst)
		if err != nil {
			return nil, fmt.Errorf("Object(): %w", err)
		}
		w.depth++
		defer func() { w.depth-- }()
		return w.object(obj)
	default:
		return nil, fmt.Errorf("unexpected type %v where a value was expected", t)
	}
}

func sameFloat(a, b float64) bool {
	return a == b || (a != a && b != b)
}

func (w *walker) array(arr *simdjson.Array) (*ref.Node, error) {
	n := &ref.Node{K: ref.KArr}
	switch w.o.arr {
	case 0:
		i := arr.Iter()
		for {
			if err := w.step(); err != nil {
				return nil, err
			}
			// PeekNext / PeekNextTag announce what Advance is about to return (gaps left by
			// deletions skipped the same way)
			pk, pkt := i.PeekNext(), i.PeekNextTag()
			at := i.Advance()
			if pk != at || simdjson.TagToType[pkt] != at {
				return nil, fmt.Errorf("array element: PeekNext() = %v, PeekNextTag() = %q, then Advance() = %v", pk, byte(pkt), at)
			}
			if at == simdjson.TypeNone {
				break
			}
			e, err := w.value(&i)
			if err != nil {
				return nil, err
			}
			n.Elems = append(n.Elems, e)
		}
	case 1:
		i := arr.Iter()
		var el simdjson.Iter
		for {
			if err := w.step(); err != nil {
				return nil, err
			}
			t, err := i.AdvanceIter(&el)
			if err != nil {
				return nil, fmt.Errorf("AdvanceIter: %w", err)
			}
			if t == simdjson.TypeNone {
				break
			}
			e, err := w.value(&el)
			if err != nil {
				return nil, err
			}
			n.Elems = append(n.Elems, e)
		}
	case 2:
		var ierr error
		arr.ForEach(func(i simdjson.Iter) {
			if ierr != nil {
				return
			}
			e, err := w.value(&i)
			if err != nil {
				ierr = err
				return
			}
			n.Elems = append(n.Elems, e)
		})
		if ierr != nil {
			return nil, ierr
		}
	}
	return n, nil
}

func (w *walker) object(obj *simdjson.Object) (*ref.Node, error) {
	n := &ref.Node{K: ref.KObj}
	add := func(k []byte, it *simdjson.Iter) error {
		e, err := w.value(it)
		if err != nil {
			return err
		}
		n.Keys = append(n.Keys, append([]byte(nil), k...))
		n.Elems = append(n.Elems, e)
		return nil
	}
	switch w.o.obj {
	case 0, 1:
		var tmp simdjson.Iter
		for {
			if err := w.step(); err != nil {
				return nil, err
			}
			var name []byte
			var t simdjson.Type
			var err error
			if w.o.obj == 0 {
				name, t, err = obj.NextElementBytes(&tmp)
			} else {
				var s string
				s, t, err = obj.NextElement(&tmp)
				name = []byte(s)
			}
			if err != nil {
				return nil, fmt.Errorf("NextElement: %w", err)
			}
			if t == simdjson.TypeNone {
				break
			}
			if t != tmp.Type() {
				return nil, fmt.Errorf("NextElement type %v but iterator type %v", t, tmp.Type())
			}
			if err := add(name, &tmp); err != nil {
				return nil, err
			}
		}
	case 2:
		var edst *simdjson.Elements
		if w.o.reuseDst && w.depth < len(dstElems) {
			edst = dstElems[w.depth]
		}
		els, err := obj.Parse(edst)
		if err != nil {
			return nil, fmt.Errorf("Object.Parse: %w", err)
		}
		if w.o.reuseDst && w.depth < len(dstElems) {
			dstElems[w.depth] = els
		}
		for i := range els.Elements {
			e := &els.Elements[i]
			if e.Type != e.Iter.Type() {
				return nil, fmt.Errorf("Element.Type %v but iterator type %v", e.Type, e.Iter.Type())
			}
			if err := add([]byte(e.Name), &e.Iter); err != nil {
				return nil, err
			}
		}
	case 3:
		var ierr error
		err := obj.ForEach(func(key []byte, i simdjson.Iter) {
			if ierr == nil {
				ierr = add(key, &i)
			}
		}, nil)
		if ierr != nil {
			return nil, ierr
		}
		if err != nil {
			return nil, fmt.Errorf("Object.ForEach: %w", err)
		}
	}
	return n, nil
}

// walkFlat rebuilds the documents from a flat AdvanceInto walk over the whole tape.
func walkFlat(pj *simdjson.ParsedJson) (docs []*ref.Node, err error) {
	defer func() {
		if r := recover(); r != nil {
			err = fmt.Errorf("PANIC in flat walker: %v", r)
		}
	}()
	type frame struct {
		n      *ref.Node
		root   bool
		key    []byte
		hasKey bool
	}
	var stack []*frame
	budget := 4*len(pj.Tape) + 64
	it := pj.Iter()
	put := func(n *ref.Node) error {
		if len(stack) == 0 {
			return errors.New("value outside root")
		}
		f := stack[len(stack)-1]
		switch {
		case f.root:
			if f.n != nil {
				return errors.New("two values in one root")
			}
			f.n = n
		case f.n.K == ref.KArr:
			f.n.Elems = append(f.n.Elems, n)
		default:
			if !f.hasKey {
				if n.K != ref.KStr {
					return fmt.Errorf("object key is not a string")
				}
				f.key, f.hasKey = n.S, true
				return nil
			}
			f.n.Keys = append(f.n.Keys, f.key)
			f.n.Elems = append(f.n.Elems, n)
			f.hasKey = false
		}
		return nil
	}
	for {
		budget--
		if budget < 0 {
			return nil, errBudget
		}
		tag := it.AdvanceInto()
		if tag == simdjson.TagEnd {
			break
		}
		switch tag {
		case simdjson.TagRoot:
			if len(stack) > 0 && stack[len(stack)-1].root {
				f := stack[len(stack)-1]
				stack = stack[:len(stack)-1]
				if f.n == nil {
					return nil, errors.New("empty root")
				}
				docs = append(docs, f.n)
			} else if len(stack) == 0 {
				stack = append(stack, &frame{root: true})
			} else {
				return nil, errors.New("root tag inside container")
			}
		case simdjson.TagObjectStart:
			stack = append(stack, &frame{n: &ref.Node{K: ref.KObj}})
		case simdjson.TagArrayStart:
			stack = append(stack, &frame{n: &ref.Node{K: ref.KArr}})
		case simdjson.TagObjectEnd, simdjson.TagArrayEnd:
			if len(stack) == 0 {
				return nil, errors.New("close without open")
			}
			f := stack[len(stack)-1]
			want := ref.KObj
			if tag == simdjson.TagArrayEnd {
				want = ref.KArr
			}
			if f.root || f.n.K != want || f.hasKey {
				return nil, errors.New("mismatched close")
			}
			stack = stack[:len(stack)-1]
			if err := put(f.n); err != nil {
				return nil, err
			}
		default:
			w := &walker{budget: 8}
			n, err := w.value(&it)
			if err != nil {
				return nil, err
			}
			if err := put(n); err != nil {
				return nil, err
			}
		}
	}
	if len(stack) != 0 {
		return nil, errors.New("unclosed scopes at end of tape")
	}
	return docs, nil
}

// fromInterface converts Interface() output into a node (objects lose order/duplicates).
func fromInterface(v interface{}) (*ref.Node, error) {
	switch x := v.(type) {
	case nil:
		return ref.Null(), nil
	case bool:
		return ref.Bool(x), nil
	case string:
		return ref.Str(x), nil
	case int64:
		return ref.Int(x), nil
	case uint64:
		return ref.Uint(x), nil
	case float64:
		return ref.Float(x), nil
	case []interface{}:
		n := &ref.Node{K: ref.KArr}
		for _, e := range x {
			c, err := fromInterface(e)
			if err != nil {
				return nil, err
			}
			n.Elems = append(n.Elems, c)
		}
		return n, nil
	case map[string]interface{}:
		n := &ref.Node{K: ref.KObj}
		for k, e := range x {
			c, err := fromInterface(e)
			if err != nil {
				return nil, err
			}
			n.Keys = append(n.Keys, []byte(k))
			n.Elems = append(n.Elems, c)
		}
		return n, nil
	}
	return nil, fmt.Errorf("Interface() produced unexpected Go type %T", v)
}

// walkInterface uses Iter.Interface on the whole tape: one element per root.
func walkInterface(pj *simdjson.ParsedJson) (docs []*ref.Node, err error) {
	defer func() {
		if r := recover(); r != nil {
			err = fmt.Errorf("PANIC in Interface(): %v", r)
		}
	}()
	it := pj.Iter()
	v, err := it.Interface()
	if err != nil {
		return nil, fmt.Errorf("Interface(): %w", err)
	}
	l, ok := v.([]interface{})
	if !ok {
		return nil, fmt.Errorf("Interface() on root iterator returned %T", v)
	}
	for _, e := range l {
		n, err := fromInterface(e)
		if err != nil {
			return nil, err
		}
		docs = append(docs, n)
	}
	return docs, nil
}

// renderDocs joins per-root renderings.
func renderDocs(docs []*ref.Node, f func(*ref.Node) string) string {
	var sb strings.Builder
	for i, d := range docs {
		if i > 0 {
			sb.WriteByte('\n')
		}
		sb.WriteString(f(d))
	}
	return sb.String()
}

func renderExact(n *ref.Node) string  { return n.Render() }
func renderSorted(n *ref.Node) string { return n.RenderLooseSorted() }
func renderNum(n *ref.Node) string    { return n.RenderNumeric() }

var _ = big.NewInt
