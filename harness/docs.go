package main

import (
	"bytes"
	"fmt"

	"verif/ref"
)

// docSpace enumerates every abstract document with at most maxNodes nodes.
type docSpace struct {
	leaves     []*ref.Node // scalar alphabet near the root
	deepLeaves []*ref.Node // scalar alphabet at depth >= 2
	keys       []string
	maxNodes   int
	memo       map[[2]int][]*ref.Node
}

func stdLeaves() []*ref.Node {
	return []*ref.Node{ref.Str("s"), ref.Str(""), ref.Str("\x7fé߿ࠀ\uffff𐀀\n\""), ref.Int(-12), ref.Float(-2.5), ref.Bool(true), ref.Bool(false), ref.Null()}
}

func smallLeaves() []*ref.Node {
	return []*ref.Node{ref.Int(1), ref.Str("s"), ref.Null()}
}

func (ds *docSpace) leafSet(depth int) []*ref.Node {
	if depth >= 2 {
		return ds.deepLeaves
	}
	return ds.leaves
}

func dclass(depth int) int {
	if depth >= 2 {
		return 2
	}
	return depth
}

// list materialises all trees with exactly n nodes at the given depth class.
func (ds *docSpace) list(n, depth int) []*ref.Node {
	k := [2]int{n, dclass(depth)}
	if l, ok := ds.memo[k]; ok {
		return l
	}
	var out []*ref.Node
	ds.compose(n, depth, func(t *ref.Node) { out = append(out, t) })
	ds.memo[k] = out
	return out
}

// compose calls fn for every tree with exactly n nodes rooted at depth.
func (ds *docSpace) compose(n, depth int, fn func(*ref.Node)) {
	if n == 1 {
		if depth > 0 {
			for _, l := range ds.leafSet(depth) {
				fn(l)
			}
		}
		fn(&ref.Node{K: ref.KArr})
		fn(&ref.Node{K: ref.KObj})
		return
	}
	// ordered compositions of n-1 into parts
	var parts []int
	var comp func(rest int)
	comp = func(rest int) {
		if rest == 0 {
			ds.product(parts, depth, fn)
			return
		}
		for p := 1; p <= rest; p++ {
			parts = append(parts, p)
			comp(rest - p)
			parts = parts[:len(parts)-1]
		}
	}
	comp(n - 1)
}

func (ds *docSpace) product(parts []int, depth int, fn func(*ref.Node)) {
	k := len(parts)
	lists := make([][]*ref.Node, k)
	for i, p := range parts {
		lists[i] = ds.list(p, depth+1)
		if len(lists[i]) == 0 {
			return
		}
	}
	idx := make([]int, k)
	kidx := make([]int, k)
	for {
		elems := make([]*ref.Node, k)
		for i := range idx {
			elems[i] = lists[i][idx[i]]
		}
		fn(&ref.Node{K: ref.KArr, Elems: elems})
		// every key assignment
		for i := range kidx {
			kidx[i] = 0
		}
		for {
			keys := make([][]byte, k)
			for i := range kidx {
				keys[i] = []byte(ds.keys[kidx[i]])
			}
			fn(&ref.Node{K: ref.KObj, Keys: keys, Elems: elems})
			j := k - 1
			for j >= 0 {
				kidx[j]++
				if kidx[j] < len(ds.keys) {
					break
				}
				kidx[j] = 0
				j--
			}
			if j < 0 {
				break
			}
		}
		j := k - 1
		for j >= 0 {
			idx[j]++
			if idx[j] < len(lists[j]) {
				break
			}
			idx[j] = 0
			j--
		}
		if j < 0 {
			break
		}
	}
}

// each calls fn for every document (root object or array) with 1..maxNodes nodes.
func (ds *docSpace) each(fn func(*ref.Node)) {
	ds.memo = map[[2]int][]*ref.Node{}
	for n := 1; n <= ds.maxNodes; n++ {
		ds.compose(n, 0, fn)
	}
}

// ---- layouts ----

const nLayouts = 4

var layoutNames = []string{"compact", "spaced", "lf+tab", "crlf"}

func renderLayout(n *ref.Node, layout int) []byte {
	var b bytes.Buffer
	renderL(&b, n, layout, 0)
	if layout == 1 {
		return append([]byte(" "), append(b.Bytes(), ' ')...)
	}
	return b.Bytes()
}

func nl(b *bytes.Buffer, layout, ind int) {
	switch layout {
	case 2:
		b.WriteByte('\n')
	case 3:
		b.WriteString("\r\n")
	default:
		return
	}
	for i := 0; i < ind; i++ {
		b.WriteByte('\t')
	}
}

func renderL(b *bytes.Buffer, n *ref.Node, layout, ind int) {
	sp := func() {
		if layout == 1 {
			b.WriteByte(' ')
		}
	}
	switch n.K {
	case ref.KArr, ref.KObj:
		open, cl := byte('['), byte(']')
		if n.K == ref.KObj {
			open, cl = '{', '}'
		}
		b.WriteByte(open)
		for i, e := range n.Elems {
			if i > 0 {
				sp()
				b.WriteByte(',')
			}
			sp()
			nl(b, layout, ind+1)
			if n.K == ref.KObj {
				if layout == 1 || layout == 3 {
					b.WriteString(ref.QuoteJSONEscaped(n.Keys[i]))
				} else {
					b.WriteString(ref.QuoteJSON(n.Keys[i]))
				}
				sp()
				b.WriteByte(':')
				sp()
			}
			renderL(b, e, layout, ind+1)
		}
		if len(n.Elems) > 0 {
			sp()
			nl(b, layout, ind)
		} else {
			sp()
		}
		b.WriteByte(cl)
	default:
		if n.K == ref.KStr && (layout == 1 || layout == 3) {
			// these two layouts spell every non-ASCII character as an escape
			b.WriteString(ref.QuoteJSONEscaped(n.S))
		} else {
			b.WriteString(n.JSON())
		}
	}
}

// ---- ladders ----

type ladderDoc struct {
	name string
	text []byte
}

// depthLadder yields nested documents of every depth in the list.
func depthLadder(depths []int, fn func(ladderDoc)) {
	for _, d := range depths {
		var a, o, m bytes.Buffer
		for i := 0; i < d; i++ {
			a.WriteByte('[')
			o.WriteString(`{"a":`)
			if i%2 == 0 {
				m.WriteString(`[`)
			} else {
				m.WriteString(`{"k":`)
			}
		}
		a.WriteString("[]")
		o.WriteString("{}")
		m.WriteString("[7]")
		for i := d - 1; i >= 0; i-- {
			a.WriteByte(']')
			o.WriteByte('}')
			if i%2 == 0 {
				m.WriteString(`]`)
			} else {
				m.WriteString(`}`)
			}
		}
		fn(ladderDoc{fmt.Sprintf("depth-array-%d", d), a.Bytes()})
		fn(ladderDoc{fmt.Sprintf("depth-object-%d", d), o.Bytes()})
		fn(ladderDoc{fmt.Sprintf("depth-mixed-%d", d), m.Bytes()})
	}
}

const boundarySuffix = `"k1",{"a":"x\n","b":[1,{"c":null}],"":-2.5},true,"",[[],{}],false,18446744073709551615,"last"]`

// boundaryLadder yields dense documents in which every token kind of boundarySuffix lands
// on every index-buffer slot around a flush edge. n = structural indexes before the suffix.
func boundaryLadder(lo, hi int, fn func(ladderDoc)) {
	for n := lo; n <= hi; n++ {
		t := append(densePrefix(n), boundarySuffix...)
		fn(ladderDoc{fmt.Sprintf("array-boundary-%d", n), t})
		// object flavour: members "k":0, (4 structurals each)
		var o bytes.Buffer
		o.WriteString("{")
		cnt := 1
		i := 0
		for cnt+4 <= n {
			fmt.Fprintf(&o, `"%d":0,`, i)
			i++
			cnt += 4
		}
		// fill the remainder with an array value of the right number of structurals
		rem := n - cnt
		fmt.Fprintf(&o, `"f":[`)
		// "f" : [  = 3 structurals so far
		for j := 0; j < rem; j++ {
			o.WriteString("0,")
		}
		o.WriteString(`0],"s":[`)
		o.WriteString(boundarySuffix)
		o.WriteString("}")
		fn(ladderDoc{fmt.Sprintf("object-boundary-%d", n), o.Bytes()})
	}
}
