package main

import (
	"bytes"
	"fmt"
	"math"
	"strconv"
	"strings"
	"time"

	simdjson "github.com/minio/simdjson-go"

	"verif/ref"
)

// bufferVariant: the MarshalJSONBuffer form appends to the caller's buffer. It is called with a
// non-empty destination whose spare capacity is dirty (alternating between "a few bytes spare", so
// that the output has to outgrow it, and "plenty"), and has to return prefix + the bytes MarshalJSON
// gave, leaving the prefix as it was.
var bufferVariantFlip int

func bufferVariant(api string, plain []byte, f func(dst []byte) ([]byte, error)) string {
	// prefixes end in bytes a number or string writer might mistake for its own output
	prefixes := [...]string{"\"P{[\\,:\x00", "1.0", "2e-0", "-0.", "99", "0.000000", "\\"}
	bufferVariantFlip++
	prefix := prefixes[(bufferVariantFlip/2)%len(prefixes)]
	spare := 3
	if bufferVariantFlip&1 == 0 {
		spare = len(plain) + 64
	}
	buf := make([]byte, len(prefix)+spare)
	for i := range buf {
		buf[i] = '}'
	}
	copy(buf, prefix)
	got, err := f(buf[:len(prefix)])
	if err != nil {
		return fmt.Sprintf("%sBuffer(dst) fails where %s succeeds: %v", api, api, err)
	}
	if len(got) < len(prefix) || string(got[:len(prefix)]) != prefix || !bytes.Equal(got[len(prefix):], plain) {
		return fmt.Sprintf("%sBuffer(dst) with a non-empty dst (%d spare bytes) returned %s, want the %d prefix bytes followed by %s", api, spare, clip(string(got)), len(prefix), clip(string(plain)))
	}
	return ""
}

// marshalRootFull: valid JSON, same document, fixed point.
func marshalRootFull(pj *simdjson.ParsedJson, docs []*ref.Node, c Cfg) (what, fp string) {
	defer func() {
		if r := recover(); r != nil {
			what, fp = fmt.Sprintf("PANIC in MarshalJSON: %v", r), "panic"
		}
	}()
	it := pj.Iter()
	out, err := it.MarshalJSON()
	if err != nil {
		return "MarshalJSON: " + err.Error(), "error"
	}
	itb := pj.Iter()
	if s := bufferVariant("Iter.MarshalJSON", out, itb.MarshalJSONBuffer); s != "" {
		return s, "buffer-append"
	}
	var back []*ref.Node
	var v ref.Verdict
	nd := len(docs) > 1
	if nd {
		back, v = ref.ParseND(out)
		if bytes.Count(out, []byte{'\n'}) != len(docs)-1 {
			return fmt.Sprintf("expected %d roots separated by newlines, output is %s", len(docs), clip(string(out))), "nd-separators"
		}
	} else {
		var d *ref.Node
		d, v = ref.Parse(out)
		back = []*ref.Node{d}
	}
	if v != ref.Valid {
		return fmt.Sprintf("output is not valid JSON (%v): %s", v, clip(string(out))), "invalid-output"
	}
	if !ref.NumericEqualDocs(docs, back) {
		return fmt.Sprintf("output denotes %s, document is %s", clip(renderDocs(back, renderNum)), clip(renderDocs(docs, renderNum))), "different-document"
	}
	// fixed point
	pj2, perr, p := doParse(c, out, nil, nd)
	if perr != nil || p != "" {
		return fmt.Sprintf("marshalled text is rejected by the parser: %v %v: %s", perr, p, clip(string(out))), "reparse"
	}
	it2 := pj2.Iter()
	out2, err := it2.MarshalJSON()
	if err != nil || !bytes.Equal(out, out2) {
		return fmt.Sprintf("not a fixed point: %s then %s (%v)", clip(string(out)), clip(string(out2)), err), "fixed-point"
	}
	return "", ""
}

// marshalForEach marshals the per-root iterators handed out by ParsedJson.ForEach.
func marshalForEach(pj *simdjson.ParsedJson, docs []*ref.Node) (what, fp string) {
	defer func() {
		if r := recover(); r != nil {
			what, fp = fmt.Sprintf("PANIC: %v", r), "panic"
		}
	}()
	n := 0
	err := pj.ForEach(func(i simdjson.Iter) error {
		ib := i
		out, err := i.MarshalJSON()
		if err != nil {
			what, fp = fmt.Sprintf("MarshalJSON on the iterator ParsedJson.ForEach provides for root %d: %v", n, err), "foreach-iter-error"
			return err
		}
		if s := bufferVariant("ForEach iterator: Iter.MarshalJSON", out, ib.MarshalJSONBuffer); s != "" {
			what, fp = s, "foreach-buffer-append"
			return fmt.Errorf("stop")
		}
		got, ok := parseAnyValue(out)
		if !ok || n >= len(docs) || !ref.NumericEqual(docs[n], got) {
			what, fp = fmt.Sprintf("ForEach iterator %d marshals to %s", n, clip(string(out))), "foreach-iter-value"
			return fmt.Errorf("stop")
		}
		n++
		return nil
	})
	if what != "" {
		return
	}
	if err != nil || n != len(docs) {
		return fmt.Sprintf("ForEach visited %d of %d roots (%v)", n, len(docs), err), "foreach-count"
	}
	return "", ""
}

func c10Check(pj *simdjson.ParsedJson, docs []*ref.Node, c Cfg) (string, string) {
	if what, fp := marshalRootFull(pj, docs, c); what != "" {
		return what, "root/" + fp
	}
	if tapeDepth(pj) > 1500 {
		// addressing every inner value of a very deep document costs O(depth^2) in the harness
		// itself: root and ForEach marshalling only
		return marshalForEach(pj, docs)
	}
	if what := marshalInner(pj, docs); what != "" {
		return what, "inner"
	}
	if what, fp := marshalForEach(pj, docs); what != "" {
		return what, fp
	}
	return "", ""
}

func c10Body(w *W) {
	t0 := time.Now()
	lap := func(name string) {
		w.Max("max_ms_"+name, time.Since(t0).Milliseconds())
		t0 = time.Now()
	}
	// (a) every document of the standard space and every accepted NDJSON input
	doc := func(harness string, text []byte, nd bool) {
		var docs []*ref.Node
		var v ref.Verdict
		if nd {
			docs, v = ref.ParseND(text)
		} else {
			var d *ref.Node
			d, v = ref.Parse(text)
			docs = []*ref.Node{d}
		}
		if v != ref.Valid {
			return
		}
		w.res.Evaluations++
		for _, c := range strModes() {
			w.cur.Set(harness, c.String(), text)
			pj, err, p := doParse(c, text, nil, nd)
			w.res.Validated++
			if err != nil || p != "" {
				continue // C01/C08's business
			}
			w.Distinct(tapeHash(pj))
			if what, fp := c10Check(pj, docs, c); what != "" {
				w.Violate(Violation{Harness: harness, Fingerprint: "C10/" + fp, What: what, Case: append([]byte(nil), text...), Config: c.String(), Args: fmt.Sprint(nd)})
			}
		}
	}
	forEachStdDoc(w, func(name string, text []byte) {
		if strings.HasPrefix(name, "tree/") && name != "tree/compact" && name != "tree/lf+tab" {
			return // marshalled output does not depend on the input's white space: two layouts suffice
		}
		if strings.HasPrefix(name, "depth-") {
			// inner-value marshalling costs O(depth^2) per document: every depth up to 130 (past
			// the marshaller's 100-entry stack), then every 25th
			var d int
			fmt.Sscanf(name[strings.LastIndex(name, "-")+1:], "%d", &d)
			if d > 130 && d%25 != 0 {
				return
			}
		}
		doc("C10-"+name, text, false)
	})
	lap("stddocs")
	forEachNDInput(w, func(name string, text []byte) { doc("C10-nd-"+name, text, true) })
	lap("nd")

	// (b) strings containing every byte that needs escaping, and every UTF-8 length class
	w.Note("escape coverage: a string containing each byte 0x00..0x7f (via \\u escapes where needed) alone, first, last and in the middle; 2/3/4-byte UTF-8")
	for b := 0; b < 0x80; b++ {
		w.res.States++
		if !w.Mine() {
			continue
		}
		esc := fmt.Sprintf(`\u%04x`, b)
		for _, s := range []string{esc, esc + "tail", "head" + esc, "he" + esc + "ad" + esc, "é" + esc + "€😀" + `\u20ac\ud83d\ude00`} {
			text := []byte(`["` + s + `",{"` + s + `":"` + s + `"}]`)
			w.res.Transitions++
			doc("C10-escapes", text, false)
		}
	}

	// (b2) float values from the C18 boundary set, as parsed literals
	w.Note("float documents: 2^e and 10^e for every exponent with both neighbours, decimals of every digit count, 6000 floats between 1e17 and 1e21 with unrelated low digits; 16 values per document, spelled with 17 significant digits")
	var fvals []float64
	for e := -1074; e <= 1023; e++ {
		f := math.Ldexp(1, e)
		fvals = append(fvals, f, math.Nextafter(f, 0), math.Nextafter(f, math.Inf(1)))
	}
	for e := -323; e <= 308; e++ {
		f, _ := strconv.ParseFloat("1e"+strconv.Itoa(e), 64)
		fvals = append(fvals, f, math.Nextafter(f, 0), math.Nextafter(f, math.Inf(1)), -f)
	}
	// decimals of every digit count 1..17 (the marshaller's digit-generation branches differ by length)
	for L := 1; L <= 17; L++ {
		lo := 1.0
		for i := 1; i < L; i++ {
			lo *= 10
		}
		for i := 0; i < 40; i++ {
			m := lo + float64(i)*lo*9/40 + float64(i*7)
			for _, e := range []int{-9, -3, 0, 4, 12} {
				f, err := strconv.ParseFloat(strconv.FormatFloat(m, 'f', 0, 64)+"e"+strconv.Itoa(e-L+1), 64)
				if err == nil {
					fvals = append(fvals, f)
				}
			}
		}
	}
	// large floats with unrelated low digits (2^57 .. 1e21, where the shortest digits are
	// decided by the exactness of the interval ends): 17-digit mantissas x 10^1..10^4
	for i := 0; i < 1500; i++ {
		m := uint64(10000000000000000) + uint64(i)*59999999999989 + uint64(i*i)%9973
		for e := 1; e <= 4; e++ {
			if f, err := strconv.ParseFloat(strconv.FormatUint(m, 10)+"e"+strconv.Itoa(e), 64); err == nil {
				fvals = append(fvals, f)
			}
		}
	}
	for i := 0; i < len(fvals); i += 16 {
		w.res.States++
		if !w.Mine() {
			continue
		}
		var sb strings.Builder
		sb.WriteByte('[')
		for j := i; j < i+16 && j < len(fvals); j++ {
			if j > i {
				sb.WriteByte(',')
			}
			sb.WriteString(strconv.FormatFloat(fvals[j], 'e', 17, 64))
		}
		sb.WriteByte(']')
		w.res.Transitions++
		doc("C10-floats", []byte(sb.String()), false)
	}

	lap("escapes_floats")
	// (c) every state of the edit/delete history graph
	hp := c14Params(w)
	hp.prop = "C10"
	hp.maxDepth = 1
	if w.Thorough() {
		hp.maxDepth = 2
	}
	base := hp.ops
	hp.ops = func(docs []*ref.Node, depth int) []editOp {
		ops := base(docs, depth)
		for _, p := range valuePositions(docs) {
			for _, k := range []int{opSetFloat, opSetStrBytes, opSetUint, opSetTrue} {
				ops = append(ops, editOp{kind: k, p: p, route: 1})
			}
		}
		return ops
	}
	hp.check = func(pj *simdjson.ParsedJson, docs []*ref.Node) (string, string) {
		return c10Check(pj, docs, Cfg{hasAVX512, true})
	}
	w.Note(fmt.Sprintf("edited tapes: every state of the replace/delete history graph to depth %d (NOP gaps in every position)", hp.maxDepth))
	exploreHistories(w, hp)

	lap("histories")
	// (c2) SetNull addressed to a document's top-level container: the iterator Root() hands out
	// afterwards has a scope that ends in a gap
	w.Note("top-level containers nulled: SetNull on the top-level container of every document of every seed (each NDJSON line in turn); afterwards every root is marshalled from a fresh Root() iterator (plain and Buffer form) and from the tape iterator")
	for _, seed := range editSeeds {
		for _, c := range strModes() {
			text := []byte(seed.text)
			var docs []*ref.Node
			if seed.nd {
				docs, _ = ref.ParseND(text)
			} else {
				d, _ := ref.Parse(text)
				docs = []*ref.Node{d}
			}
			for di := range docs {
				w.res.States++
				if !w.Mine() {
					continue
				}
				pj, err, p := doParse(c, append([]byte(nil), text...), nil, seed.nd)
				if err != nil || p != "" {
					continue
				}
				w.res.Transitions++
				w.res.Evaluations++
				w.res.Validated++
				if bad := c10TopLevelNull(pj, docs, di); bad != "" {
					w.Violate(Violation{Harness: "C10-top-level-null", Fingerprint: "C10/top-level-null", What: bad, Case: []byte(fmt.Sprintf("%s#%d", seed.name, di)), CaseText: fmt.Sprintf("seed %s, SetNull on the top-level container of document %d", seed.name, di), Config: c.String()})
				}
			}
		}
	}
	lap("toplevelnull")
	// (d) non-finite floats: every marshal call covering the node must fail with no bytes
	w.Note("non-finite floats: SetFloat(NaN, +Inf, -Inf) at every number/string position of every seed; the root marshal, the value's own marshal and every enclosing Array/Elements marshal must return an error and no bytes")
	for si, seed := range editSeeds {
		w.res.States++
		if !w.Mine() {
			continue
		}
		text := []byte(seed.text)
		var docs []*ref.Node
		if seed.nd {
			docs, _ = ref.ParseND(text)
		} else {
			d, _ := ref.Parse(text)
			docs = []*ref.Node{d}
		}
		for _, p := range valuePositions(docs) {
			if !setAllowed(opSetFloat, nodeAt(docs, p).K) {
				continue
			}
			for _, f := range []float64{math.NaN(), math.Inf(1), math.Inf(-1)} {
				pj, err, pp := doParse(Cfg{hasAVX512, true}, text, nil, seed.nd)
				if err != nil || pp != "" {
					continue
				}
				w.res.Transitions++
				w.res.Evaluations++
				w.res.Validated++
				if what := c10NonFinite(pj, docs, p, f); what != "" {
					w.Violate(Violation{Harness: "C10-nonfinite", Fingerprint: "C10/nonfinite", What: what, Case: text, CaseText: fmt.Sprintf("seed %d %q SetFloat(%v)@%s", si, seed.text, f, p), Config: "avx512/copy"})
				}
			}
		}
	}
}

func c10TopLevelNull(pj *simdjson.ParsedJson, docs []*ref.Node, di int) (bad string) {
	defer func() {
		if r := recover(); r != nil {
			bad = fmt.Sprintf("PANIC: %v", r)
		}
	}()
	it, err := navigate(pj, vpath{di}, 0)
	if err != nil {
		return "cannot reach the top-level container: " + err.Error()
	}
	if err := it.SetNull(); err != nil {
		return "SetNull on the top-level container: " + err.Error()
	}
	null := &ref.Node{K: ref.KNull}
	for k := range docs {
		want := docs[k]
		if k == di {
			want = null
		}
		fresh, err := navigate(pj, vpath{k}, 0)
		if err != nil {
			return fmt.Sprintf("Root() of document %d after the edit: %v", k, err)
		}
		fb := *fresh
		out, err := fresh.MarshalJSON()
		if err != nil {
			return fmt.Sprintf("MarshalJSON of the iterator Root() hands out for document %d after SetNull on the top-level container of document %d: %v", k, di, err)
		}
		got, ok := parseAnyValue(out)
		if !ok || !ref.NumericEqual(want, got) {
			return fmt.Sprintf("the iterator Root() hands out for document %d marshals as %s after SetNull on the top-level container of document %d, want %s", k, clip(string(out)), di, clip(want.RenderNumeric()))
		}
		if s := bufferVariant("Root() iterator: Iter.MarshalJSON", out, fb.MarshalJSONBuffer); s != "" {
			return s
		}
	}
	root := pj.Iter()
	out, err := root.MarshalJSON()
	lines := strings.Split(strings.TrimRight(string(out), "\n"), "\n")
	if err != nil || len(lines) != len(docs) {
		return fmt.Sprintf("MarshalJSON of the tape after SetNull on the top-level container of document %d: %s (%v), want %d documents", di, clip(string(out)), err, len(docs))
	}
	for k, l := range lines {
		want := docs[k]
		if k == di {
			want = null
		}
		got, ok := parseAnyValue([]byte(l))
		if !ok || !ref.NumericEqual(want, got) {
			return fmt.Sprintf("document %d marshals as %s after SetNull on the top-level container of document %d", k, clip(l), di)
		}
	}
	return ""
}

func c10NonFinite(pj *simdjson.ParsedJson, docs []*ref.Node, p vpath, f float64) (what string) {
	defer func() {
		if r := recover(); r != nil {
			what = fmt.Sprintf("PANIC: %v", r)
		}
	}()
	it, err := navigate(pj, p, 3)
	if err != nil {
		return err.Error()
	}
	if err := it.SetFloat(f); err != nil {
		return "SetFloat: " + err.Error()
	}
	must := func(api string, out []byte, err error) string {
		if err == nil {
			return fmt.Sprintf("%s returned %s and no error although the tape holds %v", api, clip(string(out)), f)
		}
		if len(out) != 0 {
			return fmt.Sprintf("%s returned an error and %d bytes of output", api, len(out))
		}
		return ""
	}
	root := pj.Iter()
	out, err := root.MarshalJSON()
	if s := must("root Iter.MarshalJSON", out, err); s != "" {
		return s
	}
	// the value itself and every ancestor
	for l := len(p); l >= 2; l-- {
		q := p[:l]
		vi, err := navigate(pj, q, 3)
		if err != nil {
			return err.Error()
		}
		c := *vi
		out, err := c.MarshalJSON()
		if s := must(fmt.Sprintf("Iter.MarshalJSON at %s", q), out, err); s != "" {
			return s
		}
		switch vi.Type() {
		case simdjson.TypeArray:
			a, _ := vi.Array(nil)
			out, err := a.MarshalJSON()
			if s := must(fmt.Sprintf("Array.MarshalJSON at %s", q), out, err); s != "" {
				return s
			}
		case simdjson.TypeObject:
			o, _ := vi.Object(nil)
			els, perr := o.Parse(nil)
			if perr != nil {
				return perr.Error()
			}
			out, err := els.MarshalJSON()
			if s := must(fmt.Sprintf("Elements.MarshalJSON at %s", q), out, err); s != "" {
				return s
			}
		}
	}
	return ""
}

func c10Replay(v *Violation) string {
	if v.Harness == "C10-history" {
		hp := c14Params(nil)
		hp.check = func(pj *simdjson.ParsedJson, docs []*ref.Node) (string, string) {
			return c10Check(pj, docs, Cfg{hasAVX512, true})
		}
		return replayHistory(v, hp)
	}
	if v.Harness == "C10-nonfinite" {
		return "see case_text; re-run ./run.sh C10 quick"
	}
	nd := v.Args == "true"
	c := parseCfg(v.Config)
	var docs []*ref.Node
	if nd {
		docs, _ = ref.ParseND(v.Case)
	} else {
		d, _ := ref.Parse(v.Case)
		docs = []*ref.Node{d}
	}
	pj, err, p := doParse(c, v.Case, nil, nd)
	if err != nil || p != "" {
		return fmt.Sprint("OK (rejected) ", err, p)
	}
	if what, _ := c10Check(pj, docs, c); what != "" {
		return "FAIL " + what
	}
	return "OK"
}

func init() {
	register(&check{
		prop: "C10", name: "marshal-json", level: "model_checking",
		rule:   "Every document of the C02 space and every accepted input of the C08 line-sequence space (both string modes), strings containing each byte 0x00..0x7f in four placements, and every state of the replace/delete history graph (NOP gaps everywhere) is marshalled by the real code from the root iterator, from a restricted iterator on every inner value, from Array/Elements and from the iterators ParsedJson.ForEach hands out. Oracles: output valid per the grammar model (ND roots newline-separated), denotes the same ordered document with numerically equal numbers, and re-parsing + re-marshalling reproduces it byte for byte; SetFloat(NaN/+-Inf) at every position makes every covering marshal call return an error and no bytes. states=documents/history states, transitions=texts/ops, traces_validated=marshalled tapes judged.",
		assume: []string{"only iterators restricted to one value (AdvanceIter, NextElement, Parse, FindKey, ForEach of ParsedJson) are marshalled as 'inner value' iterators; an Advance-positioned iterator's scope is the rest of its container by documentation"},
		body:   c10Body,
		replay: c10Replay,
	})
}
