package main

import (
	"bytes"
	"encoding/json"
	"fmt"
	"strings"
	"time"

	simdjson "github.com/minio/simdjson-go"

	"verif/ref"
)

// snapshot: everything observable through read, marshal and serialize APIs.
func snapshot(pj *simdjson.ParsedJson) (s string) {
	defer func() {
		if r := recover(); r != nil {
			s = fmt.Sprintf("PANIC: %v", r)
		}
	}()
	var sb strings.Builder
	docs, err := walkFlat(pj)
	if err != nil {
		return "UNREADABLE " + err.Error()
	}
	sb.WriteString(renderDocs(docs, renderExact))
	for _, o := range walkCombos[:2] {
		d2, err := walkDoc(pj, o)
		if err != nil {
			return "UNREADABLE " + err.Error()
		}
		sb.WriteString("|")
		sb.WriteString(renderDocs(d2, renderExact))
	}
	it := pj.Iter()
	js, err := it.MarshalJSON()
	fmt.Fprintf(&sb, "|json:%s:%v", js, err)
	rt, what := roundTrip(pj, simdjson.CompressFast, simdjson.CompressDefault)
	if what != "" {
		fmt.Fprintf(&sb, "|ser:%s", what)
	} else {
		d3, err := walkFlat(rt)
		fmt.Fprintf(&sb, "|ser:%s:%v", renderDocs(d3, renderExact), err)
	}
	return sb.String()
}

var scribbleNames = []string{"all 0x00", "all 0xff", "all quotes", "reversed", "rotated by one"}

func scribble(buf, orig []byte, k int) {
	switch k {
	case 0:
		for i := range buf {
			buf[i] = 0
		}
	case 1:
		for i := range buf {
			buf[i] = 0xff
		}
	case 2:
		for i := range buf {
			buf[i] = '"'
		}
	case 3:
		for i := range buf {
			buf[i] = orig[len(orig)-1-i]
		}
	case 4:
		for i := range buf {
			buf[i] = orig[(i+1)%len(orig)]
		}
	}
}

func c16Doc(w *W, harness string, text []byte, nd bool) {
	w.res.Evaluations++
	if len(text) == 0 {
		return
	}
	kernels := []bool{hasAVX512}
	if hasAVX512 && w.res.Evaluations%8 == 0 {
		// decoupling does not depend on the stage-1 kernel family: the second family on every 8th document
		kernels = []bool{true, false}
	}
	for _, avx := range kernels {
		cfg := Cfg{avx, true}
		in := append([]byte(nil), text...)
		w.cur.Set(harness, cfg.String(), text)
		pj, err, p := doParse(cfg, in, nil, nd)
		w.res.Validated++
		if err != nil || p != "" {
			return // not an accepted document: nothing to decouple
		}
		base := snapshot(pj)
		w.Distinct(hashBytes([]byte(base)))
		// no-copy mode on an intact private buffer must expose the same document
		in2 := append([]byte(nil), text...)
		pj2, err2, p2 := doParse(Cfg{avx, false}, in2, nil, nd)
		if err2 != nil || p2 != "" {
			w.Violate(Violation{Harness: harness, Fingerprint: "C16/nocopy-outcome", What: fmt.Sprint("accepted with copying, rejected without: ", err2, p2), Case: append([]byte(nil), text...), Config: cfg.String(), Args: fmt.Sprint(nd)})
		} else if s2 := snapshot(pj2); s2 != base {
			w.Violate(Violation{Harness: harness, Fingerprint: "C16/nocopy-differs", What: fmt.Sprintf("no-copy mode (input intact) exposes %s, copy mode %s", clip(s2), clip(base)), Case: append([]byte(nil), text...), Config: cfg.String(), Args: fmt.Sprint(nd)})
		}
		// default options on an object that was last used WITHOUT copying: still decoupled
		if err2 == nil && p2 == "" {
			in3 := append([]byte(nil), text...)
			pj3, err3, p3 := doParseDefault(avx, in3, pj2, nd)
			if err3 != nil || p3 != "" {
				w.Violate(Violation{Harness: harness, Fingerprint: "C16/default-after-nocopy-outcome", What: fmt.Sprint("default-option parse reusing a no-copy result failed: ", err3, p3), Case: append([]byte(nil), text...), Config: cfg.String(), Args: fmt.Sprint(nd)})
			} else {
				scribble(in3, text, 1)
				if s3 := snapshot(pj3); s3 != base {
					w.Violate(Violation{Harness: harness, Fingerprint: "C16/default-after-nocopy-coupled", What: fmt.Sprintf("Parse with default options (copying) on an object previously used without copying: after overwriting the input the result reads %s, expected %s", clip(s3), clip(base)), Case: append([]byte(nil), text...), Config: cfg.String(), Args: fmt.Sprint(nd)})
				}
			}
		}
		for k := range scribbleNames {
			if len(text) > 4096 && k != 1 && k != 4 {
				continue // large documents: two overwrite patterns
			}
			scribble(in, text, k)
			if s := snapshot(pj); s != base {
				w.Violate(Violation{Harness: harness, Fingerprint: "C16/copy-coupled", What: fmt.Sprintf("after overwriting the input buffer (%s) the copy-mode result changed: %s, before: %s", scribbleNames[k], clip(s), clip(base)), Case: append([]byte(nil), text...), Config: cfg.String(), Args: fmt.Sprint(nd)})
				break
			}
		}
	}
}

// ---- Clone histories ----

var c16CloneDocs = []string{
	`["a"]`,
	`{"k":"plain string value number one","e":"esc\n"}`,
	`["` + strings.Repeat("long plain string ", 9) + `",{"key-without-escape":"v","\u00e9":"w"},"tail"]`,
	`{"mid":"medium sized document","n":[1,2,"three"]}`,
	`[["x","yy","zzz"],"` + strings.Repeat("q", 70) + `"]`,
}

// c16Op: obj/src/dst index 0 = original, 1.. = clones
type c16Op struct {
	Kind int `json:"kind"` // 0 edit, 1 clone
	Obj  int `json:"obj"`
	Pos  int `json:"pos"`
	Edit int `json:"edit"`
	Dst  int `json:"dst"` // clone: -1 = nil destination, else existing object index
}

var c16Edits = []int{opSetStrBytes, opSetInt, opSetNull, opArrDelete}

func (o c16Op) String() string {
	name := func(i int) string {
		if i == 0 {
			return "original"
		}
		return fmt.Sprintf("clone%d", i)
	}
	if o.Kind == 0 {
		e := c16Edits[o.Edit]
		en := "Array.DeleteElems(first)"
		if e < nSetOps {
			en = setNames[e]
		}
		return fmt.Sprintf("%s on %s at value position #%d", en, name(o.Obj), o.Pos)
	}
	if o.Kind == 2 {
		return fmt.Sprintf("Parse(another document, reuse = %s)", name(o.Obj))
	}
	if o.Kind == 3 {
		return "Deserialize(blob of another document, destination = original)"
	}
	if o.Dst < 0 {
		return fmt.Sprintf("Clone(%s, nil)", name(o.Obj))
	}
	return fmt.Sprintf("Clone(%s into %s)", name(o.Obj), name(o.Dst))
}

type c16Obj struct {
	pj   *simdjson.ParsedJson
	docs []*ref.Node
}

func c16Run(seed seedDoc, cfg Cfg, hist []c16Op) (what, fp string) {
	text := []byte(seed.text)
	var docs []*ref.Node
	if seed.nd {
		docs, _ = ref.ParseND(text)
	} else {
		d, _ := ref.Parse(text)
		docs = []*ref.Node{d}
	}
	in := append([]byte(nil), text...)
	pj, err, p := doParse(cfg, in, nil, seed.nd)
	if err != nil || p != "" {
		return fmt.Sprint("seed rejected ", err, p), "seed"
	}
	objs := []*c16Obj{{pj, docs}}
	origInInput := false
	for i, o := range hist {
		if o.Obj >= len(objs) {
			return "", "" // refers to a clone that does not exist in this history
		}
		src := objs[o.Obj]
		if o.Kind == 3 {
			// the original is recycled as the destination of a Deserialize
			if o.Obj != 0 {
				return "", ""
			}
			other := []byte(`{"dd":"strings that live in the message section","ee":["T","UU"],"n":[7]}`)
			od, _ := ref.Parse(other)
			opj, perr, pp := doParse(Cfg{hasAVX512, true}, other, nil, false)
			if perr != nil || pp != "" {
				return fmt.Sprint("cannot parse the other document: ", perr, pp), "seed"
			}
			blob, sp := serialize(simdjson.NewSerializer(), opj)
			if sp != "" {
				return "Serialize panicked: " + sp, "seed"
			}
			out, derr, dp := deserialize(simdjson.NewSerializer(), append([]byte(nil), blob...), src.pj)
			if derr != nil || dp != "" {
				return fmt.Sprint("op ", i, " Deserialize into the original failed: ", derr, dp), "deserialize-into"
			}
			objs[0] = &c16Obj{out, []*ref.Node{od}}
			// Deserialize reuses the destination's Message, which for a parsed object IS the
			// caller's input slice: from here on the original legitimately lives in that buffer
			// (DESIGN.md 9, item 9: an observation, not part of this property)
			origInInput = true
			src = nil
		} else if o.Kind == 2 {
			// an object (the original or a clone) is recycled: another document is parsed with
			// it as the reuse argument; every OTHER object must keep denoting its own document
			other := []byte(`{"zz":"completely different strings","yy":["Q","RR","SSS"],"n":[9,8]}`)
			od, _ := ref.Parse(other)
			npj, perr, pp := doParse(cfg, append([]byte(nil), other...), src.pj, false)
			if perr != nil || pp != "" {
				return fmt.Sprint("op ", i, " re-parse with reuse failed: ", perr, pp), "reparse"
			}
			objs[o.Obj] = &c16Obj{npj, []*ref.Node{od}}
			src = nil
		} else if o.Kind == 1 {
			var dst *simdjson.ParsedJson
			if o.Dst >= 0 {
				if o.Dst >= len(objs) || o.Dst == o.Obj {
					return "", ""
				}
				dst = objs[o.Dst].pj
			}
			var c *simdjson.ParsedJson
			func() {
				defer func() {
					if r := recover(); r != nil {
						what, fp = fmt.Sprintf("op %d %v panicked: %v", i, o, r), "panic"
					}
				}()
				c = src.pj.Clone(dst)
			}()
			if what != "" {
				return
			}
			nd := make([]*ref.Node, len(src.docs))
			for k, d := range src.docs {
				nd[k] = d.Clone()
			}
			if o.Dst >= 0 {
				objs[o.Dst] = &c16Obj{c, nd}
			} else {
				if len(objs) >= 3 {
					return "", ""
				}
				objs = append(objs, &c16Obj{c, nd})
			}
		} else {
			var eo editOp
			e := c16Edits[o.Edit]
			if e == opSetStrBytes && o.Pos == 1 {
				e = opSetStrEsc // a replacement shorter than most strings of the seeds
			}
			if e == opArrDelete {
				cps := containerPositions(src.docs)
				var arrs []vpath
				for _, cp := range cps {
					if n := nodeAt(src.docs, cp); n.K == ref.KArr && len(n.Elems) > 0 {
						arrs = append(arrs, cp)
					}
				}
				if o.Pos >= len(arrs) {
					return "", ""
				}
				eo = editOp{kind: opArrDelete, p: arrs[o.Pos], route: 0, subset: 1}
			} else {
				vps := valuePositions(src.docs)
				var ok []vpath
				for _, vp := range vps {
					if setAllowed(e, nodeAt(src.docs, vp).K) {
						ok = append(ok, vp)
					}
				}
				if o.Pos >= len(ok) {
					return "", ""
				}
				eo = editOp{kind: e, p: ok[o.Pos], route: i % nRoutes}
			}
			nd, _ := applyModel(src.docs, eo)
			aerr, prot := applyReal(src.pj, src.docs, eo)
			if aerr != nil || prot != "" {
				return fmt.Sprintf("op %d %v failed: %v %s", i, o, aerr, prot), "edit-failed"
			}
			src.docs = nd
		}
		// every object must still equal its own model
		for k, ob := range objs {
			if w2, walker := compareWalkers(ob.pj, mkExpect(ob.docs), true); w2 != "" {
				name := "original"
				if k > 0 {
					name = fmt.Sprintf("clone%d", k)
				}
				return fmt.Sprintf("after op %d (%v) %s no longer denotes its own document: %s: %s", i, o, name, walker, w2), "clone-coupled"
			}
		}
	}
	// the library never writes into the caller's input buffer (in no-copy mode the document
	// lives there; a replacement value must go to the string buffer)
	if !origInInput && !bytes.Equal(in, text) {
		return fmt.Sprintf("the caller's input buffer was modified by the operations: now %s, was %s", clip(string(in)), clip(string(text))), "input-written"
	}
	// finally the input buffer is overwritten: nothing may change (copy mode) / clones stay intact (both modes)
	for i := range in {
		in[i] = '#'
	}
	for k, ob := range objs {
		if k == 0 && (!cfg.Copy || origInInput) {
			continue
		}
		if w2, walker := compareWalkers(ob.pj, mkExpect(ob.docs), true); w2 != "" {
			return fmt.Sprintf("after overwriting the input buffer object %d changed: %s: %s", k, walker, w2), "input-coupled"
		}
	}
	return "", ""
}

func c16Body(w *W) {
	t0 := time.Now()
	lap := func(name string) {
		w.Max("max_ms_"+name, time.Since(t0).Milliseconds())
		t0 = time.Now()
	}
	// (a)+(b) copy decoupling over the standard document space, string-heavy documents and NDJSON
	forEachStdDoc(w, func(name string, text []byte) {
		if strings.HasPrefix(name, "tree/") && name != "tree/compact" && name != "tree/lf+tab" {
			return
		}
		c16Doc(w, "C16-"+name, text, false)
	})
	lap("stddocs")
	kinds := []string{`\n`, `\"`, `\\`, `\u0041`, `\u00e9`, `\ud83d\ude00`, "é", "😀", ""}
	body := []byte("abcdefghijklmnopqrstuvwxyzABCDEFGHIJKLMNOPQRSTUVWXYZ0123456789abcdefghijklmnopqrstuvwxyz")
	w.Note("string documents: 9 escape kinds at every position of every string length <= 70, as value and as key; plain strings of 65535, 65536, 65537, 70000 and 200000 bytes as value and key")
	for l := 0; l <= 70; l++ {
		for pos := 0; pos <= l; pos++ {
			w.res.States++
			if !w.Mine() || w.Expired() {
				continue
			}
			for _, k := range kinds {
				s := string(body[:pos]) + k + string(body[pos:l])
				w.res.Transitions++
				c16Doc(w, "C16-strings", []byte(`{"`+s+`":["`+s+`","plain"]}`), false)
			}
		}
	}
	// very long plain strings (beyond 64 KiB), as value, as key, with and without an escape
	w.res.States++
	if w.Mine() {
		for _, n := range []int{65535, 65536, 65537, 70000, 200000} {
			long := strings.Repeat("abcdefghij", n/10+1)[:n]
			c16Doc(w, "C16-long-strings", []byte(`["`+long+`",{"`+long+`k":"`+long+`\n"},"tail"]`), false)
			w.res.Transitions++
		}
	}
	lap("strings")
	forEachNDInput(w, func(name string, text []byte) {
		if _, v := ref.ParseND(text); v == ref.Valid {
			c16Doc(w, "C16-nd-"+name, text, true)
		}
	})
	lap("nd")

	// (c) Clone histories
	var alpha []c16Op
	for obj := 0; obj < 3; obj++ {
		for pos := 0; pos < 3; pos++ {
			for e := range c16Edits {
				alpha = append(alpha, c16Op{Kind: 0, Obj: obj, Pos: pos, Edit: e})
			}
		}
		for dst := -1; dst < 3; dst++ {
			alpha = append(alpha, c16Op{Kind: 1, Obj: obj, Dst: dst})
		}
	}
	alpha = append(alpha, c16Op{Kind: 2, Obj: 0}, c16Op{Kind: 2, Obj: 1}, c16Op{Kind: 2, Obj: 2}, c16Op{Kind: 3, Obj: 0})
	depth := 3
	seeds := []seedDoc{editSeeds[0], editSeeds[1], editSeeds[5]}
	w.Note(fmt.Sprintf("Clone histories: every sequence of <= %d operations over %d ops {4 edits x 3 positions on the original or a clone, Clone of any object into nil or into any other existing object, re-parsing another document with the original as reuse argument, Deserialize of another document's blob into the original} on %d seeds x copy/no-copy; after every step every object must equal its own model, and again after the input buffer is overwritten", depth, len(alpha), len(seeds)))
	for _, seed := range seeds {
		for _, cfg := range strModes() {
			var hist []c16Op
			var rec func(d int)
			rec = func(d int) {
				if d > 0 {
					w.res.Evaluations++
					w.res.Validated++
					enc, _ := json.Marshal(hist)
					w.cur.Set("C16-clone/"+seed.name, cfg.String(), enc)
					if what, fp := c16Run(seed, cfg, hist); what != "" {
						var parts []string
						for _, o := range hist {
							parts = append(parts, o.String())
						}
						w.Violate(Violation{Harness: "C16-clone/" + seed.name, Fingerprint: "C16/" + fp, What: what, Case: enc, CaseText: seed.text + ": " + strings.Join(parts, "; "), Config: cfg.String()})
						return
					}
				}
				w.res.States++
				if d == depth {
					return
				}
				for _, o := range alpha {
					if d == 0 && !w.Mine() {
						continue
					}
					// prune ops referring to objects that cannot exist yet
					if o.Obj > d || o.Dst > d {
						continue
					}
					if w.Expired() || w.TooManyViolations() {
						return
					}
					hist = append(hist, o)
					w.res.Transitions++
					rec(d + 1)
					hist = hist[:len(hist)-1]
				}
			}
			rec(0)
		}
	}
	lap("clone")
	// (d) one long-lived Clone destination fed from documents of different sizes, every order
	w.Note("Clone into ONE long-lived destination: every sequence of 3 and 4 out of 5 documents of different sizes (strings with and without escapes), both string modes; after every Clone the destination must denote the source document, and still after the source's input buffer is overwritten")
	cdocs := c16CloneDocs
	var seq []int
	var recSeq func()
	recSeq = func() {
		if len(seq) >= 3 {
			w.res.States++
			if w.Mine() && !w.Expired() {
				for _, cfg := range strModes() {
					var dst *simdjson.ParsedJson
					for step, di := range seq {
						text := []byte(cdocs[di])
						d, _ := ref.Parse(text)
						in := append([]byte(nil), text...)
						w.cur.Set("C16-clone-dst", cfg.String(), []byte(fmt.Sprint(seq)))
						pj, err, p := doParse(cfg, in, nil, false)
						w.res.Transitions++
						w.res.Evaluations++
						w.res.Validated++
						if err != nil || p != "" {
							w.Fatal("clone-dst document rejected: %v %v", err, p)
						}
						dst = pj.Clone(dst)
						for i := range in {
							in[i] = '#'
						}
						if what, walker := compareWalkers(dst, mkExpect([]*ref.Node{d}), true); what != "" {
							w.Violate(Violation{Harness: "C16-clone-dst", Fingerprint: "C16/clone-dst", What: fmt.Sprintf("documents %v cloned one after the other into the same destination: after step %d the destination does not denote document %d: %s: %s", seq, step, di, walker, what), Case: []byte(fmt.Sprint(seq)), CaseText: fmt.Sprint(seq), Config: cfg.String()})
							break
						}
					}
				}
			}
		}
		if len(seq) == 4 {
			return
		}
		for i := range cdocs {
			dup := false
			for _, j := range seq {
				if i == j {
					dup = true
				}
			}
			if dup {
				continue
			}
			seq = append(seq, i)
			recSeq()
			seq = seq[:len(seq)-1]
		}
	}
	recSeq()
	lap("clone-dst")
	w.Sample("clone history sample: Clone(original, nil); SetStringBytes(40B) on original at value position #0; Clone(clone1 into original)")
}

func c16Replay(v *Violation) string {
	if v.Harness == "C16-clone-dst" {
		var seq []int
		for _, f := range strings.Fields(strings.Trim(string(v.Case), "[]")) {
			var n int
			fmt.Sscanf(f, "%d", &n)
			seq = append(seq, n)
		}
		cfg := parseCfg(v.Config)
		var dst *simdjson.ParsedJson
		for step, di := range seq {
			if di < 0 || di >= len(c16CloneDocs) {
				return "cannot decode"
			}
			text := []byte(c16CloneDocs[di])
			d, _ := ref.Parse(text)
			in := append([]byte(nil), text...)
			pj, err, p := doParse(cfg, in, nil, false)
			if err != nil || p != "" {
				return fmt.Sprint("FAIL rejected ", err, p)
			}
			dst = pj.Clone(dst)
			for i := range in {
				in[i] = '#'
			}
			if what, walker := compareWalkers(dst, mkExpect([]*ref.Node{d}), true); what != "" {
				return fmt.Sprintf("FAIL after step %d: %s: %s", step, walker, what)
			}
		}
		return "OK"
	}
	if strings.HasPrefix(v.Harness, "C16-clone/") {
		name := strings.TrimPrefix(v.Harness, "C16-clone/")
		var hist []c16Op
		if err := json.Unmarshal(v.Case, &hist); err != nil {
			return "cannot decode"
		}
		for _, s := range editSeeds {
			if s.name == name {
				if what, _ := c16Run(s, parseCfg(v.Config), hist); what != "" {
					return "FAIL " + what
				}
				return "OK"
			}
		}
		return "unknown seed"
	}
	w := &W{Prop: "C16", distinct: map[uint64]struct{}{}, fpSeen: map[string]int{}, cur: &curFile{}}
	c16Doc(w, v.Harness, v.Case, v.Args == "true")
	if len(w.res.Violations) > 0 {
		return "FAIL " + w.res.Violations[0].What
	}
	return "OK"
}

var _ = bytes.Equal

func init() {
	register(&check{
		prop: "C16", name: "copy-decoupling-and-clone", level: "model_checking",
		rule:   "(a) Every document of the C02 space (two layouts, ladders), a string space (9 escape kinds at every position of every length <= 70, as key and value) and every accepted input of the C08 line space is parsed with copying from a private buffer; a snapshot of everything observable (flat walk, two walker combinations, MarshalJSON bytes, serialize round trip) is taken, the buffer is overwritten with each of 5 patterns and the snapshot must not change; (b) the no-copy parse of an intact buffer must give the same snapshot; (c) every history of <= 3 operations over {4 edits x 3 positions on the original or on a clone, Clone of any object into nil or into any other object} from 3 seeds in both string modes: after every step every object must equal its own model, and once more after the input buffer is overwritten. states=enumeration nodes/history prefixes, transitions=documents/operations, traces_validated=parses/histories judged; distinct_nontrivial=distinct snapshots.",
		assume: []string{"values delivered by ParseNDStream are covered in C09 (held values are re-read after buffer recycling)"},
		body:   c16Body,
		replay: c16Replay,
	})
}
