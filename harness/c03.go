package main

import (
	"fmt"
	"math"
	"math/big"
	"strconv"
	"strings"

	"verif/ref"
)

// c03Lit checks one grammar-conforming literal in both stage-2 value sites.
func c03Lit(w *W, s *parseSession, lit []byte, harness string) {
	if !ref.IsNumberLiteral(lit) {
		w.Count("generator_nonliteral_skipped", 1)
		return
	}
	want, finite := ref.ClassifyNumber(lit)
	w.res.Evaluations++
	if !finite {
		w.Count("nonfinite_skipped", 1)
		return
	}
	w.Count("kind_"+kindName(want.K), 1)
	wantR := want.Render()
	cfg := Cfg{hasAVX512, true}
	var buf [2][]byte
	buf[0] = append(append([]byte{'['}, lit...), ']')
	buf[1] = append(append([]byte(`{"k":`), lit...), '}')
	for site, in := range buf {
		w.cur.Set(harness, cfg.String(), in)
		pj, err, p := s.parse(cfg, in, false)
		w.res.Validated++
		bad, fp := "", ""
		switch {
		case p != "":
			bad, fp = "panic: "+p, "panic"
		case err != nil:
			// confirm on a fresh object
			if _, err2, _ := doParse(cfg, in, nil, false); err2 != nil {
				bad, fp = "finite number literal rejected: "+err.Error(), "rejected"
			}
		default:
			docs, werr := walkDoc(pj, walkCombos[0])
			if werr != nil {
				bad, fp = werr.Error(), "unreadable"
				break
			}
			got := docs[0].Elems[0]
			if site == 0 && bad == "" {
				// the bulk float accessor must expose the same number (as float64)
				if it, nerr := navigate(pj, vpath{0}, 0); nerr == nil {
					if arr, aerr := it.Array(nil); aerr == nil {
						fs, ferr := arr.AsFloat()
						if ferr != nil || len(fs) != 1 || math.Float64bits(fs[0]) != math.Float64bits(modelFloat(want)) {
							bad = fmt.Sprintf("Array.AsFloat() of [%s] = %v (%v), the literal's value as float64 is %v", clip(string(lit)), fs, ferr, modelFloat(want))
							fp = "AsFloat/" + kindName(want.K)
						}
					}
				}
			}
			if site == 0 && bad == "" && math.Abs(modelFloat(want)) >= 1<<52 {
				// where conversions between int64, uint64 and float64 have boundaries: every
				// element-wise and bulk numeric accessor against the conversion model
				if what, afp := c12ArrayAccessorsAt(pj, vpath{0}, &ref.Node{K: ref.KArr, Elems: []*ref.Node{want}}); what != "" {
					bad, fp = what, "accessor/"+afp
				}
			}
			if bad == "" && got.Render() != wantR {
				cls := "value"
				if got.K != want.K {
					cls = "type"
				} else if got.Flag != want.Flag {
					cls = "flag"
				}
				bad = fmt.Sprintf("literal %s exposed as %s, documented type/value is %s", clip(string(lit)), got.Render(), wantR)
				fp = cls + "/" + kindName(want.K) + "->" + kindName(got.K)
			}
		}
		if bad != "" {
			w.Violate(Violation{Harness: harness, Fingerprint: "C03/" + fp + fmt.Sprintf("/site%d", site), What: bad, Case: append([]byte(nil), in...), Config: cfg.String()})
		}
	}
	if want.K == ref.KFloat {
		w.Distinct(math.Float64bits(want.F))
	} else {
		w.Distinct(hashBytes(lit))
	}
}

// number DFA for viable-prefix pruning
const (
	nsStart = iota
	nsMinus
	nsZero
	nsInt
	nsDot
	nsFrac
	nsE
	nsESign
	nsExp
	nsDead
)

func numStep(st int, c byte) int {
	d := c >= '0' && c <= '9'
	switch st {
	case nsStart:
		switch {
		case c == '-':
			return nsMinus
		case c == '0':
			return nsZero
		case d:
			return nsInt
		}
	case nsMinus:
		switch {
		case c == '0':
			return nsZero
		case d:
			return nsInt
		}
	case nsZero:
		switch c {
		case '.':
			return nsDot
		case 'e', 'E':
			return nsE
		}
	case nsInt:
		switch {
		case d:
			return nsInt
		case c == '.':
			return nsDot
		case c == 'e' || c == 'E':
			return nsE
		}
	case nsDot:
		if d {
			return nsFrac
		}
	case nsFrac:
		switch {
		case d:
			return nsFrac
		case c == 'e' || c == 'E':
			return nsE
		}
	case nsE:
		switch {
		case c == '+' || c == '-':
			return nsESign
		case d:
			return nsExp
		}
	case nsESign:
		if d {
			return nsExp
		}
	case nsExp:
		if d {
			return nsExp
		}
	}
	return nsDead
}

func numAccept(st int) bool { return st == nsZero || st == nsInt || st == nsFrac || st == nsExp }

func c03Body(w *W) {
	s := &parseSession{}
	c03L1(w, s)
	c03L2(w, s)
	c03L3(w, s)
	c03L4(w, s)
	c03L5(w, s)
}

// L5: plain decimals (no exponent) of every significant-digit count 1..19, an arithmetic
// lattice of mantissas per count with the decimal point at every position - the range where
// a fast path computing mantissa / 10^k in floating point would round twice.
func c03L5(w *W, s *parseSession) {
	per := 1500
	if w.Thorough() {
		per = 20000
	}
	w.Note(fmt.Sprintf("L5: for every digit count 1..19, %d mantissas on an arithmetic lattice over [10^(L-1), 10^L) (plus the neighbourhoods of 2^53 and 2^63), each written with the decimal point at every position", per))
	emit := func(ms string) {
		for p := 1; p < len(ms); p++ {
			if ms[len(ms)-1] == '0' && p < len(ms) {
				// trailing zero after the point is fine: still a valid literal
			}
			w.res.Transitions++
			c03Lit(w, s, []byte(ms[:p]+"."+ms[p:]), "C03-L5")
		}
		w.res.Transitions++
		c03Lit(w, s, []byte("0."+ms), "C03-L5")
	}
	for L := 1; L <= 19; L++ {
		lo := new(big.Int).Exp(big.NewInt(10), big.NewInt(int64(L-1)), nil)
		span := new(big.Int).Mul(lo, big.NewInt(9))
		n := int64(per)
		if span.IsInt64() && span.Int64() < n {
			n = span.Int64()
		}
		stride := new(big.Int).Div(span, big.NewInt(n))
		for i := int64(0); i < n; i++ {
			w.res.States++
			if !w.Mine() || w.Expired() || w.TooManyViolations() {
				continue
			}
			m := new(big.Int).Mul(stride, big.NewInt(i))
			m.Add(m, lo)
			m.Add(m, big.NewInt((i*7919)%1000003%strideMod(stride)))
			emit(m.String())
		}
	}
	for _, c := range []string{"9007199254740992", "9223372036854775808", "9999999999999999", "1000000000000000"} {
		cv, _ := new(big.Int).SetString(c, 10)
		for d := int64(-40); d <= 40; d++ {
			w.res.States++
			if !w.Mine() {
				continue
			}
			emit(new(big.Int).Add(cv, big.NewInt(d)).String())
		}
	}
}

func strideMod(b *big.Int) int64 {
	if b.IsInt64() && b.Int64() > 0 {
		return b.Int64()
	}
	return 1 << 62
}

// L1: every grammar string up to n over a 10-character alphabet (enumerated through the
// number DFA; non-viable prefixes are pruned because no extension is a number).
func c03L1(w *W, s *parseSession) {
	alpha := []byte("01259-+.eE")
	n := 8
	if w.Thorough() {
		n = 9
	}
	w.Note(fmt.Sprintf("L1: every number literal of length <= %d over %q", n, alpha))
	buf := make([]byte, 0, n)
	var rec func(st, depth int)
	rec = func(st, depth int) {
		w.res.States++
		if numAccept(st) {
			c03Lit(w, s, buf, "C03-L1")
		}
		if depth == n {
			return
		}
		for _, c := range alpha {
			ns := numStep(st, c)
			if ns == nsDead {
				continue
			}
			buf = append(buf, c)
			w.res.Transitions++
			rec(ns, depth+1)
			buf = buf[:len(buf)-1]
		}
	}
	// shard on the first two characters
	for _, a := range alpha {
		s1 := numStep(nsStart, a)
		if s1 == nsDead {
			continue
		}
		if w.Shard == 0 && numAccept(s1) {
			c03Lit(w, s, []byte{a}, "C03-L1")
		}
		for _, b := range alpha {
			s2 := numStep(s1, b)
			if s2 == nsDead || !w.Mine() {
				continue
			}
			buf = append(buf[:0], a, b)
			rec(s2, 2)
			if w.Expired() || w.TooManyViolations() {
				return
			}
		}
	}
	w.Sample("L1 sample: " + string(buf))
}

func spellings(intLit string) []string {
	return []string{intLit, intLit + ".0", intLit + "e0", intLit + "E+0", intLit + "e-0", intLit + ".5", intLit + "0e-1"}
}

// L2: neighbourhoods of every type boundary and digit-count ladders.
func c03L2(w *W, s *parseSession) {
	centers := []string{"0", "2147483648", "-2147483648", "9007199254740992", "-9007199254740992",
		"9223372036854775808", "-9223372036854775808", "18446744073709551616",
		"1000000000000000000", "10000000000000000000", "100000000000000000000", "-10000000000000000000", "-100000000000000000000",
		"99999999999999999999", "179769313486231570814527423731704356798070567525844996598917476803157260780028538760589558632766878171540458953514382464234321326889464182768467546703537516986049910576551282076245490090389328944075868508455133942304583236903222948165808559332123348274797826204144723168738177180919299881250404026184124858368"}
	w.Note(fmt.Sprintf("L2: every integer within +-300 of %d boundary centres (0, +-2^31, +-2^53, 2^63, -2^63, 2^64, 10^18..10^20, max float64), each spelled 7 ways; digit ladders 1..25", len(centers)))
	for _, cs := range centers {
		c, _ := new(big.Int).SetString(cs, 10)
		for d := -300; d <= 300; d++ {
			w.res.States++
			if !w.Mine() {
				continue
			}
			v := new(big.Int).Add(c, big.NewInt(int64(d)))
			for _, sp := range spellings(v.String()) {
				w.res.Transitions++
				c03Lit(w, s, []byte(sp), "C03-L2")
			}
		}
	}
	for n := 1; n <= 25; n++ {
		for _, pat := range []string{strings.Repeat("9", n), "1" + strings.Repeat("0", n-1), "1" + strings.Repeat("0", n-1) + "1", "5" + strings.Repeat("0", n)} {
			w.res.States++
			if !w.Mine() {
				continue
			}
			for _, sign := range []string{"", "-"} {
				for _, sp := range spellings(sign + pat) {
					w.res.Transitions++
					c03Lit(w, s, []byte(sp), "C03-L2-ladder")
				}
			}
		}
	}
}

// exactDecimal returns the exact decimal expansion of m * 2^e (m > 0).
func exactDecimal(m *big.Int, e int) string {
	if e >= 0 {
		return new(big.Int).Lsh(m, uint(e)).String()
	}
	k := -e
	p := new(big.Int).Exp(big.NewInt(5), big.NewInt(int64(k)), nil)
	d := new(big.Int).Mul(m, p).String()
	if len(d) <= k {
		d = strings.Repeat("0", k-len(d)+1) + d
	}
	return d[:len(d)-k] + "." + d[len(d)-k:]
}

func bumpLastDigit(s string, up bool) string {
	b := []byte(s)
	i := len(b) - 1
	if up {
		for i >= 0 {
			if b[i] == '.' {
				i--
				continue
			}
			if b[i] < '9' {
				b[i]++
				return string(b)
			}
			b[i] = '0'
			i--
		}
		return "1" + string(b)
	}
	for i >= 0 {
		if b[i] == '.' {
			i--
			continue
		}
		if b[i] > '0' {
			b[i]--
			break
		}
		b[i] = '9'
		i--
	}
	// strip a leading zero produced by the borrow (keep "0.x")
	r := string(b)
	for len(r) > 1 && r[0] == '0' && r[1] != '.' {
		r = r[1:]
	}
	return r
}

// L3: exact halfway points between adjacent doubles, and +-1 in the last digit.
func c03L3(w *W, s *parseSession) {
	mants := []uint64{0, 1, 2, 1 << 51, 1<<52 - 1, 0x5555555555555, 0xAAAAAAAAAAAAA, 1<<52 - 2}
	w.Note(fmt.Sprintf("L3: for every binary exponent (all 2046 normal + subnormal range) x %d mantissas: the exact decimal expansion of the midpoint to the next double (up to ~1100 digits) and that expansion +-1 in its last digit", len(mants)))
	for be := 0; be <= 2046; be++ {
		for _, mant := range mants {
			w.res.States++
			if !w.Mine() || w.Expired() {
				continue
			}
			bits := uint64(be)<<52 | mant
			f := math.Float64frombits(bits)
			next := math.Float64frombits(bits + 1)
			if math.IsInf(next, 0) {
				continue
			}
			// midpoint = (f+next)/2 = (2*mf+1) * 2^(ef-1)
			var m uint64
			var e int
			if be == 0 {
				m, e = mant, -1074
			} else {
				m, e = mant|1<<52, be-1075
			}
			_ = f
			mid := new(big.Int).SetUint64(2*m + 1)
			dec := exactDecimal(mid, e-1)
			for _, lit := range []string{dec, bumpLastDigit(dec, true), bumpLastDigit(dec, false)} {
				if !ref.IsNumberLiteral([]byte(lit)) {
					w.Fatal("L3 produced a non-literal %q", lit)
				}
				w.res.Transitions++
				c03Lit(w, s, []byte(lit), "C03-L3")
				c03Lit(w, s, []byte("-"+lit), "C03-L3")
			}
		}
	}
}

// L4: decimal lattice d[.ddd]e±X.
func c03L4(w *W, s *parseSession) {
	maxM := 3000
	if w.Thorough() {
		maxM = 30000
	}
	w.Note(fmt.Sprintf("L4: every mantissa 1..%d (plain and with a decimal point after the first digit) x every exponent -330..310 x spellings {e, E, e+, e-0}", maxM))
	for m := 1; m <= maxM; m++ {
		w.res.States++
		if !w.Mine() || w.Expired() || w.TooManyViolations() {
			continue
		}
		ms := strconv.Itoa(m)
		forms := []string{ms}
		if len(ms) > 1 {
			forms = append(forms, ms[:1]+"."+ms[1:])
		}
		for _, f := range forms {
			for x := -330; x <= 310; x++ {
				var sp []string
				if x >= 0 {
					sp = []string{f + "e" + strconv.Itoa(x), f + "E" + strconv.Itoa(x), f + "e+" + strconv.Itoa(x)}
				} else {
					sp = []string{f + "e" + strconv.Itoa(x), f + "E" + strconv.Itoa(x), f + "e-0" + strconv.Itoa(-x)}
				}
				for _, l := range sp {
					w.res.Transitions++
					c03Lit(w, s, []byte(l), "C03-L4")
				}
			}
		}
	}
	w.Sample("L4 sample: 9.99e-0330, 999E310")
}

func c03Replay(v *Violation) string {
	c := parseCfg(v.Config)
	d, vd := ref.Parse(v.Case)
	if vd != ref.Valid {
		return "OK (not a valid document for the model)"
	}
	pj, err, p := doParse(c, v.Case, nil, false)
	if p != "" || err != nil {
		return fmt.Sprintf("FAIL rejected: %v %v", err, p)
	}
	docs, werr := walkDoc(pj, walkCombos[0])
	if werr != nil {
		return "FAIL " + werr.Error()
	}
	if docs[0].Render() != d.Render() {
		return "FAIL exposed " + clip(docs[0].Render()) + " want " + clip(d.Render())
	}
	return "OK " + clip(d.Render())
}

func init() {
	register(&check{
		prop: "C03", name: "number-classification", level: "model_checking",
		rule:   "Every literal of the bounded number lattices (L1: all grammar strings <= n over 10 characters, enumerated through the number DFA; L2: +-300 neighbourhoods of every type boundary in 7 spellings and digit ladders; L3: exact halfway points between adjacent doubles for every binade x 8 mantissas, +-1 last digit; L4: decimal lattice mantissa x exponent -330..310 x spellings) is parsed by the real code as an array element and as an object value and read through the typed accessors; type, exact value (bit-for-bit) and overflow flag must equal the exact classifier on math/big. states=DFA/lattice nodes, transitions=literals, traces_validated=Parse calls compared; distinct_nontrivial=distinct values.",
		assume: []string{"exact classifier ref.ClassifyNumber (big.Int / big.Rat.Float64), cross-checked against strconv in setup", "one kernel/copy config: number conversion is independent of stage 1 and string mode (C06 covers kernels)"},
		body:   c03Body,
		replay: c03Replay,
	})
}
