package main

import (
	"fmt"
	"os"
	"os/exec"
	"strings"
)

// c20Post runs the free-running -race pass (a separate binary built with -race from the
// plain, uninstrumented package) and turns a race report or a result mismatch into a
// violation.
func c20Post(m *Result, tier string) {
	bin := os.Getenv("VERIF_RACE_BIN")
	if bin == "" {
		m.Fatal = "race binary not provided (VERIF_RACE_BIN)"
		return
	}
	cmd := exec.Command(bin, "racepass", tier)
	os.Unsetenv("GOMAXPROCS")
	cmd.Env = append(os.Environ(), "GORACE=halt_on_error=0 exitcode=66")
	out, err := cmd.CombinedOutput()
	text := string(out)
	if m.Counters == nil {
		m.Counters = map[string]int64{}
	}
	var iters, mism int64
	for _, l := range strings.Split(text, "\n") {
		if strings.HasPrefix(l, "racepass:") {
			fmt.Sscanf(l, "racepass: %d goroutine-programs run, %d mismatches", &iters, &mism)
		}
	}
	m.Counters["race_pass_goroutine_programs"] = iters
	races := strings.Count(text, "WARNING: DATA RACE")
	m.Counters["race_pass_data_race_reports"] = int64(races)
	if races > 0 {
		i := strings.Index(text, "WARNING: DATA RACE")
		rep := text[i:]
		if len(rep) > 3000 {
			rep = rep[:3000]
		}
		m.Violations = append(m.Violations, Violation{Property: "C20", Harness: "C20-racepass", Fingerprint: "C20/data-race", What: "the race detector reports a data race between goroutines working on their own objects:\n" + rep, Case: []byte(rep), CaseText: "free-running -race pass", Config: "race"})
	}
	if mism > 0 {
		m.Violations = append(m.Violations, Violation{Property: "C20", Harness: "C20-racepass", Fingerprint: "C20/race-pass-mismatch", What: "a goroutine observed different results than when running alone (free-running pass): " + clip(text), Case: []byte(clip(text)), Config: "race"})
	}
	if err != nil && races == 0 && mism == 0 {
		m.Fatal = "race pass failed: " + err.Error() + "\n" + clip(text)
		return
	}
	m.Notes = append(m.Notes, fmt.Sprintf("auxiliary free-running -race pass: %d goroutine-programs on real pools, %d race reports, %d mismatches (sampling; supports the data-race-freedom assumption)", iters, races, mism))
}
