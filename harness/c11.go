package main

import (
	"bytes"
	"encoding/binary"
	"encoding/json"
	"fmt"
	"os"
	"os/exec"
	"path/filepath"
	"strings"

	simdjson "github.com/minio/simdjson-go"

	"verif/ref"
)

type serTape struct {
	corrupt bool // Serialize is expected to panic on it (unknown tag); nothing may stick to the Serializer
	name    string
	pj      *simdjson.ParsedJson
	docs    []*ref.Node
	exact   string
	big     bool
	// top: the tape is compared through topLevelRender only (a top-level entry that is not a
	// root, which the reference walkers do not model)
	top string
	// aux: not part of the history alphabet; run through dedicated short histories
	aux bool
}

// topLevelRender lists what Advance + MarshalJSON expose for every top-level entry.
func topLevelRender(pj *simdjson.ParsedJson) (out string) {
	defer func() {
		if r := recover(); r != nil {
			out += fmt.Sprint(" PANIC ", r)
		}
	}()
	var sb strings.Builder
	it := pj.Iter()
	for n := 0; n < 1000; n++ {
		t := it.Advance()
		if t == simdjson.TypeNone {
			break
		}
		b, err := it.MarshalJSON()
		fmt.Fprintf(&sb, "%v:%s:%v|", t, b, err)
	}
	return sb.String()
}

func mustParse(w *W, text string, nd bool, c Cfg) (*simdjson.ParsedJson, []*ref.Node) {
	var docs []*ref.Node
	var v ref.Verdict
	if nd {
		docs, v = ref.ParseND([]byte(text))
	} else {
		var d *ref.Node
		d, v = ref.Parse([]byte(text))
		docs = []*ref.Node{d}
	}
	pj, err, p := doParse(c, []byte(text), nil, nd)
	if v != ref.Valid || err != nil || p != "" {
		w.Fatal("cannot build tape %q: %v %v %v", clip(text), v, err, p)
	}
	return pj, docs
}

func applyOps(w *W, pj *simdjson.ParsedJson, docs []*ref.Node, ops []editOp) []*ref.Node {
	for _, o := range ops {
		nd, allowed := applyModel(docs, o)
		err, prot := applyReal(pj, docs, o)
		if !allowed || err != nil || prot != "" {
			w.Fatal("cannot build edited tape: %v %v %v", o, err, prot)
		}
		docs = nd
	}
	return docs
}

// collidingStrings finds strings whose hash buckets collide in the serializer's table.
func collidingStrings(n int) []string {
	seen := map[uint64]string{}
	var out []string
	for i := 0; len(out) < n && i < 400000; i++ {
		s := fmt.Sprintf("c%x", i)
		if i%3 == 0 {
			s = fmt.Sprintf("c%x-prefix", i/3)
		}
		h := simdjson.VerifMemHash([]byte(s))
		if o, ok := seen[h]; ok && o != s {
			out = append(out, o, s)
		} else {
			seen[h] = s
		}
	}
	return out
}

// collidingPrefixPair returns T and S = T + suffix whose dedup-table buckets coincide.
func collidingPrefixPair() (string, string) {
	for i := 0; i < 2000000; i++ {
		t := fmt.Sprintf("key-%d", i)
		s := t + "-with-a-longer-suffix"
		if simdjson.VerifMemHash([]byte(t)) == simdjson.VerifMemHash([]byte(s)) {
			return t, s
		}
	}
	return "key-x", "key-x-with-a-longer-suffix"
}

func collidingSameLength() (string, string) {
	seen := map[uint64]string{}
	for i := 0; i < 2000000; i++ {
		t := fmt.Sprintf("same-%07d", i)
		h := simdjson.VerifMemHash([]byte(t))
		if o, ok := seen[h]; ok {
			return o, t
		}
		seen[h] = t
	}
	return "same-a", "same-b"
}

func c11Tapes(w *W) []*serTape {
	cp := Cfg{hasAVX512, true}
	var ts []*serTape
	add := func(name string, pj *simdjson.ParsedJson, docs []*ref.Node, big bool) {
		ts = append(ts, &serTape{name: name, pj: pj, docs: docs, exact: renderDocs(docs, renderExact), big: big})
	}
	pj, docs := mustParse(w, `{"a":1}`, false, cp)
	add("tiny", pj, docs, false)
	pj, docs = mustParse(w, "{\"a\":1}\n[true,false]\n{\"b\":{\"c\":\"d\"}}", true, cp)
	add("nd3", pj, docs, false)
	pj, docs = mustParse(w, `{"a":1,"b":"x","c":[1,2,3],"d":{"e":true,"f":null}}`, false, cp)
	docs = applyOps(w, pj, docs, []editOp{{kind: opSetStrEsc, p: vpath{0, 0}, route: 0}, {kind: opSetNull, p: vpath{0, 1}, route: 1}, {kind: opSetFloat, p: vpath{0, 2, 1}, route: 2}, {kind: opSetNull, p: vpath{0, 3}, route: 0}})
	add("edited", pj, docs, false)
	pj, docs = mustParse(w, `[1,"a",[2,3],{"x":1,"y":[4,5],"z":2},true,null]`, false, cp)
	docs = applyOps(w, pj, docs, []editOp{{kind: opArrDelete, p: vpath{0}, route: 0, subset: 0b100001}, {kind: opObjDelete, p: vpath{0, 2}, route: 0, subset: 0b110, form: 0}, {kind: opArrDelete, p: vpath{0, 1}, route: 0, subset: 0b11}})
	add("deleted", pj, docs, false)
	pj, docs = mustParse(w, `[]`, false, cp)
	add("empty", pj, docs, false)
	pj, docs = mustParse(w, `[1,-1,18446744073709551615,1.5,123456789012345678901234567890,-0.0,-123456789012345678901234567890,1e-320]`, false, cp)
	add("numbers", pj, docs, false)
	pj, docs = mustParse(w, `{"msg":"in message only","k":["x","yy",""],"esc":"a\nb"}`, false, Cfg{hasAVX512, false})
	add("nocopy", pj, docs, false)
	// strings that fall into the same bucket of the serializer's dedup table (found with the
	// package's own hash, which is seeded per process): a string and its own extension, and
	// two strings of equal length. One tape ends with the long string, the other stores the
	// short one at the very same buffer offset, so whatever an earlier Serialize left behind
	// the current end of the scratch buffer lines up with it.
	t1, s1 := collidingPrefixPair()
	p1, q1 := collidingSameLength()
	pj, docs = mustParse(w, fmt.Sprintf(`["pad",%q]`, s1), false, cp)
	add("collide-long", pj, docs, false)
	pj, docs = mustParse(w, fmt.Sprintf(`["pad",%q,%q,%q,%q,%q]`, t1, s1, p1, q1, p1), false, cp)
	add("collide-prefix-then-long", pj, docs, false)
	pj, docs = mustParse(w, fmt.Sprintf(`["pad",%q,%q]`, t1, s1), false, cp)
	add("collide-prefix-long-last", pj, docs, false)
	// the empty string as the last distinct string of the tape (offset == size of the string
	// section), alone, after others, as a value and as a key
	for i, txt := range []string{`[""]`, `{"a":""}`, `["x","y",""]`, `{"k":"v","":null}`, `["","x",""]`} {
		pj, docs = mustParse(w, txt, false, cp)
		add(fmt.Sprintf("empty-string-last-%d", i), pj, docs, false)
		ts[len(ts)-1].aux = true
	}
	// a tape that ends in a NOP run: SetNull on the last root of an NDJSON tape, and on the
	// only root of a single document
	for i, txt := range []string{"{\"a\":1}\n[2,3]", `{"only":[1,2]}`} {
		pj, _ = mustParse(w, txt, i == 0, cp)
		it := pj.Iter()
		var last simdjson.Iter
		for it.Advance() == simdjson.TypeRoot {
			last = it
		}
		if err := last.SetNull(); err != nil {
			w.Fatal("SetNull on the last root: %v", err)
		}
		ts = append(ts, &serTape{name: fmt.Sprintf("last-root-nulled-%d", i), pj: pj, top: topLevelRender(pj), aux: true})
	}
	// a tape a caller corrupted by hand: Serialize panics on the unknown tag
	pj, docs = mustParse(w, `[1,"two",3]`, false, cp)
	pj.Tape[2] = uint64('X') << 56
	add("corrupt-unknown-tag", pj, docs, false)
	ts[len(ts)-1].corrupt = true
	// big tapes
	pj, docs = mustParse(w, "["+strings.Repeat("null,", 70000)+"true]", false, cp)
	add("70k-tags", pj, docs, true)
	var sb strings.Builder
	sb.WriteByte('[')
	for i := 0; i < 9000; i++ {
		fmt.Fprintf(&sb, "%d,", i*7919-30000)
	}
	sb.WriteString("1.25]")
	pj, docs = mustParse(w, sb.String(), false, cp)
	add("9k-values", pj, docs, true)
	sb.Reset()
	sb.WriteString(`["",""`)
	for _, s := range collidingStrings(120) {
		fmt.Fprintf(&sb, ",%q", s)
	}
	for i := 0; i < 4000; i++ {
		fmt.Fprintf(&sb, ",\"str-%d-%s\"", i, strings.Repeat("x", i%40))
		if i%50 == 0 {
			fmt.Fprintf(&sb, ",\"str-%d-%s\"", i/2, strings.Repeat("x", (i/2)%40)) // repeats: dedup path
		}
	}
	sb.WriteString("]")
	pj, docs = mustParse(w, sb.String(), false, cp)
	add("4k-strings", pj, docs, true)
	// three tag blocks / three value blocks / a deleted gap longer than one tag block
	pj, docs = mustParse(w, "["+strings.Repeat("null,", 140000)+"true]", false, cp)
	add("140k-tags", pj, docs, true)
	sb.Reset()
	sb.WriteByte('[')
	for i := 0; i < 20000; i++ {
		fmt.Fprintf(&sb, "%d,", i*104729-7)
	}
	sb.WriteString("0.5]")
	pj, docs = mustParse(w, sb.String(), false, cp)
	add("20k-values", pj, docs, true)
	// more than 1 MiB of value bytes (the S2 stream is re-blocked into 1 MiB chunks)
	sb.Reset()
	sb.WriteByte('[')
	for i := 0; i < 140000; i++ {
		fmt.Fprintf(&sb, "%d,", i*31-70000)
	}
	sb.WriteString("0.25]")
	pj, docs = mustParse(w, sb.String(), false, cp)
	add("140k-values", pj, docs, true)
	sb.Reset()
	sb.WriteString("[[")
	for i := 0; i < 40000; i++ {
		fmt.Fprintf(&sb, "%d,", i)
	}
	sb.WriteString(`0],"after the gap",2]`)
	pj, docs = mustParse(w, sb.String(), false, cp)
	docs = applyOps(w, pj, docs, []editOp{{kind: opArrDelete, p: vpath{0}, route: 0, subset: 0b1}})
	add("80k-tag-gap", pj, docs, true)
	pj, docs = mustParse(w, "["+strings.Repeat(`{"k":[1,"v"]},`, 200)+"0]", false, cp)
	docs = applyOps(w, pj, docs, []editOp{{kind: opArrDelete, p: vpath{0}, route: 0, subset: 0b10110}})
	add("200-objects-deleted", pj, docs, true)
	return ts
}

type blob struct {
	data []byte
	tape int
	mode int
}

// serOp: kind 0 = Serialize(tape), 1 = CompressMode(m), 2 = Deserialize(blob j into dst)
type serOp struct {
	Kind int `json:"kind"`
	A    int `json:"a"` // tape index / mode / blob index (-1 = most recent blob of this history)
	Dst  int `json:"dst"`
}

func (o serOp) str(ts []*serTape, blobs []blob) string {
	switch o.Kind {
	case 0:
		return "Serialize(" + ts[o.A].name + ")"
	case 1:
		return "CompressMode(" + modeNames[o.A] + ")"
	}
	dst := []string{"nil", "reused dst", "dst previously filled by a larger tape", "dst = parsed [\"a\",2] whose string was replaced by a 360-byte one"}[o.Dst]
	if o.A < 0 {
		return "Deserialize(last blob, " + dst + ")"
	}
	return fmt.Sprintf("Deserialize(blob[%s/%s], %s)", ts[blobs[o.A].tape].name, modeNames[blobs[o.A].mode], dst)
}

// runSerHistory executes a history on one fresh Serializer and one reused destination and
// returns the first disagreement.
func runSerHistory(ts []*serTape, blobs []blob, hist []serOp, collect *[]blobRec) (what, fp string) {
	defer func() {
		if r := recover(); r != nil {
			what, fp = fmt.Sprintf("PANIC: %v", r), "panic"
		}
	}()
	s := simdjson.NewSerializer()
	var d *simdjson.ParsedJson
	last := -1
	var lastBlob []byte
	for i, o := range hist {
		switch o.Kind {
		case 0:
			b, p := serialize(s, ts[o.A].pj)
			if ts[o.A].corrupt {
				// a failing call: it may panic, but must leave the Serializer usable
				continue
			}
			if p != "" {
				return fmt.Sprintf("op %d Serialize panicked: %s", i, p), "serialize-panic"
			}
			last, lastBlob = o.A, append([]byte(nil), b...)
			// the blob must denote the tape for an independent reader
			fs := simdjson.NewSerializer()
			out, err, p := deserialize(fs, lastBlob, nil)
			if err != nil || p != "" {
				return fmt.Sprintf("op %d: blob of %s does not deserialize with a fresh Serializer: %v %v", i, ts[o.A].name, err, p), "blob-unreadable"
			}
			if w, f := serCompare(out, ts[o.A]); w != "" {
				return fmt.Sprintf("op %d: blob of %s read by a fresh Serializer: %s", i, ts[o.A].name, w), "ser/" + f
			}
			if collect != nil {
				*collect = append(*collect, blobRec{Blob: lastBlob, Exact: ts[o.A].exact, Name: ts[o.A].name})
			}
		case 1:
			s.CompressMode(simdjson.CompressMode(o.A))
		case 2:
			var src []byte
			var ti int
			if o.A < 0 {
				if last < 0 {
					continue
				}
				src, ti = lastBlob, last
			} else {
				src, ti = blobs[o.A].data, blobs[o.A].tape
			}
			var dst *simdjson.ParsedJson
			switch o.Dst {
			case 1:
				dst = d
			case 2:
				big := ts[len(ts)-1]
				for _, t := range ts {
					if !t.big && len(t.pj.Tape) > len(ts[ti].pj.Tape) {
						big = t
					}
				}
				dst = big.pj.Clone(nil)
			case 3:
				// a tiny parsed document whose string buffer was grown by an edit: small Message
				// capacity, large Strings capacity
				tiny, perr := simdjson.Parse([]byte(`["a",2]`), nil)
				if perr != nil {
					return "cannot parse the tiny destination: " + perr.Error(), "harness"
				}
				it := tiny.Iter()
				it.AdvanceInto()
				it.AdvanceInto()
				if it.AdvanceInto() != simdjson.TagString {
					return "tiny destination: string not found", "harness"
				}
				if serr := it.SetString(strings.Repeat("grown ", 60)); serr != nil {
					return "tiny destination: " + serr.Error(), "harness"
				}
				dst = tiny
			}
			out, err, p := deserialize(s, src, dst)
			if p != "" {
				return fmt.Sprintf("op %d Deserialize panicked: %s", i, p), "deserialize-panic"
			}
			if err != nil {
				return fmt.Sprintf("op %d Deserialize of a valid blob (%s) failed: %v", i, ts[ti].name, err), "deserialize-error"
			}
			if w, f := serCompare(out, ts[ti]); w != "" {
				return fmt.Sprintf("op %d %s: %s", i, o.str(ts, blobs), w), "de/" + f
			}
			d = out
		}
	}
	return "", ""
}

func serCompare(out *simdjson.ParsedJson, t *serTape) (what, fp string) {
	if t.top != "" {
		if got := topLevelRender(out); got != t.top {
			return fmt.Sprintf("top-level entries read %s, the source tape reads %s", clip(got), clip(t.top)), "different-document"
		}
		return "", ""
	}
	if err := tapeErr(out, ref.TapeOpts{AllowNop: true, StrictNop: true}); err != nil {
		return "deserialized tape violates the format: " + err.Error(), "format"
	}
	docs, err := walkFlat(out)
	if err != nil {
		return "deserialized tape unreadable: " + err.Error(), "unreadable"
	}
	if got := renderDocs(docs, renderExact); got != t.exact {
		return fmt.Sprintf("denotes %s, source tape denotes %s", clip(got), clip(t.exact)), "different-document"
	}
	if !t.big {
		if w, walker := compareWalkers(out, mkExpect(t.docs), false); w != "" {
			return walker + ": " + w, "walker"
		}
	}
	return "", ""
}

type blobRec struct {
	Blob  []byte `json:"blob"`
	Exact string `json:"exact"`
	Name  string `json:"name"`
}

func c11Body(w *W) {
	ts := c11Tapes(w)
	// pre-made blobs by fresh serializers in every mode
	var blobs []blob
	var recs []blobRec
	for ti, t := range ts {
		for m := 0; m < 4; m++ {
			s := simdjson.NewSerializer()
			s.CompressMode(simdjson.CompressMode(m))
			if t.corrupt {
				continue
			}
			b, p := serialize(s, t.pj)
			if p != "" {
				w.Violate(Violation{Harness: "C11-premade", Fingerprint: "C11/serialize-panic", What: "Serialize panicked on tape " + t.name + ": " + p, Case: []byte(t.name), Config: modeNames[m]})
				continue
			}
			blobs = append(blobs, blob{data: append([]byte(nil), b...), tape: ti, mode: m})
			if t.top == "" {
				recs = append(recs, blobRec{Blob: blobs[len(blobs)-1].data, Exact: t.exact, Name: t.name + "/" + modeNames[m]})
			}
		}
	}
	// alphabet
	var small []int
	corruptIdx := -1
	for i, t := range ts {
		if t.corrupt {
			corruptIdx = i
			continue // not part of the history alphabet: every panicking Serialize leaks its pooled coders
		}
		if !t.big && !t.aux {
			small = append(small, i)
		}
	}
	var alpha []serOp
	for _, ti := range small {
		alpha = append(alpha, serOp{Kind: 0, A: ti})
	}
	for m := 0; m < 4; m++ {
		alpha = append(alpha, serOp{Kind: 1, A: m})
	}
	for dst := 0; dst < 4; dst++ {
		alpha = append(alpha, serOp{Kind: 2, A: -1, Dst: dst})
	}
	for bi, b := range blobs {
		if ts[b.tape].big || ts[b.tape].aux {
			continue
		}
		for dst := 0; dst < 2; dst++ {
			alpha = append(alpha, serOp{Kind: 2, A: bi, Dst: dst})
		}
	}
	depth := 3
	if w.Thorough() {
		depth = 4
	}
	w.Note(fmt.Sprintf("histories: every sequence of <= %d operations over %d ops {Serialize(9 small tapes incl. two with strings colliding in the dedup table), CompressMode(4), Deserialize(last blob | any of %d pre-made blobs, dst in {nil, reused, previously larger, tiny parsed document with a grown string buffer})} on one reused Serializer and destination; each history runs on a fresh Serializer (prefix replay)", depth, len(alpha), len(alpha)-len(small)-4-3))
	report := func(hist []serOp, what, fp string) {
		var parts []string
		for _, o := range hist {
			parts = append(parts, o.str(ts, blobs))
		}
		enc, _ := json.Marshal(hist)
		w.Violate(Violation{Harness: "C11-history", Fingerprint: "C11/" + fp, What: what, Case: enc, CaseText: strings.Join(parts, "; "), Config: "asm"})
	}
	// depth-3 histories only where the last op is a Deserialize or Serialize (a trailing
	// CompressMode has no observable effect)
	var hist []serOp
	var rec func(d int)
	rec = func(d int) {
		if d > 0 && hist[d-1].Kind != 1 {
			w.res.Evaluations++
			w.res.Validated++
			w.cur.Set("C11-history", "asm", []byte(fmt.Sprint(hist)))
			if what, fp := runSerHistory(ts, blobs, hist, nil); what != "" {
				report(hist, what, fp)
				return
			}
			if d >= 2 && hist[d-1].Kind == 2 {
				// non-trivial: a Deserialize on a Serializer that already did something
				w.Distinct(hashBytes([]byte(fmt.Sprint(hist))))
			}
		}
		w.res.States++
		if d == depth {
			return
		}
		for _, o := range alpha {
			if d == 0 && !w.Mine() {
				continue
			}
			if d == depth-1 && o.Kind == 1 {
				continue
			}
			if w.Expired() || w.TooManyViolations() {
				return
			}
			hist = append(hist, o)
			w.res.Transitions++
			rec(d + 1)
			hist = hist[:len(hist)-1]
		}
	}
	rec(0)
	// a failing Serialize in the middle: Mode(m); Serialize(a); Serialize(corrupt tape, panics);
	// Serialize(b); Deserialize(last) - the Serializer must behave like a fresh one afterwards
	if corruptIdx >= 0 {
		w.Note("failed call in the middle: Mode(m); Serialize(a); Serialize(tape with an unknown tag: panics); Serialize(b); Deserialize(last blob) for all small tapes a, b and the 4 modes")
		for m := 0; m < 4; m++ {
			for _, a := range small {
				for _, b := range small {
					w.res.States++
					if !w.Mine() || w.Expired() {
						continue
					}
					h := []serOp{{Kind: 1, A: m}, {Kind: 0, A: a}, {Kind: 0, A: corruptIdx}, {Kind: 0, A: b}, {Kind: 2, A: -1, Dst: 1}}
					w.res.Transitions += int64(len(h))
					w.res.Evaluations++
					w.res.Validated++
					if what, fp := runSerHistory(ts, blobs, h, nil); what != "" {
						report(h, what, fp)
					}
				}
			}
		}
	}
	// auxiliary small tapes (empty string last in the string section, tape ending in a NOP run):
	// Mode(m); [Serialize(p); Deserialize(last)]; Serialize(t); Deserialize(last, dst) for every
	// mode, every small tape p (or none) before it and every destination kind
	w.Note("auxiliary tapes (the empty string as last distinct string x 5 shapes, last root nulled x 2): Mode(m); [Serialize(p); Deserialize]; Serialize(t); Deserialize(last, dst) for 4 modes x every small tape p or none x dst in {nil, reused, previously larger}")
	for ti, t := range ts {
		if !t.aux {
			continue
		}
		for m := 0; m < 4; m++ {
			for pi := -1; pi < len(small); pi++ {
				for dst := 0; dst < 3; dst++ {
					w.res.States++
					if !w.Mine() || w.Expired() {
						continue
					}
					h := []serOp{{Kind: 1, A: m}}
					if pi >= 0 {
						h = append(h, serOp{Kind: 0, A: small[pi]}, serOp{Kind: 2, A: -1, Dst: 1})
					}
					h = append(h, serOp{Kind: 0, A: ti}, serOp{Kind: 2, A: -1, Dst: dst})
					w.res.Transitions += int64(len(h))
					w.res.Evaluations++
					w.res.Validated++
					if what, fp := runSerHistory(ts, blobs, h, nil); what != "" {
						report(h, what, fp)
					}
				}
			}
		}
	}
	// big tapes: all histories of the shape Mode(a); Serialize(big); Mode(b); Deserialize(last, dst)
	w.Note("big tapes (70000 and 140000 tags, 9000 and 20000 values, a deleted gap of 80000 tags, 4000+ strings with colliding hash buckets and repeats, 200 objects with deletions): every Mode(a); Serialize; Mode(b); Deserialize(last) for a,b in 4 modes x dst in {nil, reused}; plus Serialize(small) before, to exercise leftovers in the reused scratch buffers")
	for ti, t := range ts {
		if !t.big {
			continue
		}
		for a := 0; a < 4; a++ {
			for b := 0; b < 4; b++ {
				for pre := 0; pre < 2; pre++ {
					w.res.States++
					if !w.Mine() || w.Expired() {
						continue
					}
					h := []serOp{}
					if pre == 1 {
						h = append(h, serOp{Kind: 0, A: small[2]}, serOp{Kind: 2, A: -1, Dst: 1})
					}
					h = append(h, serOp{Kind: 1, A: a}, serOp{Kind: 0, A: ti}, serOp{Kind: 1, A: b}, serOp{Kind: 2, A: -1, Dst: 1 - pre}, serOp{Kind: 0, A: small[0]}, serOp{Kind: 2, A: -1, Dst: 1})
					w.res.Transitions += int64(len(h))
					w.res.Evaluations++
					w.res.Validated++
					if what, fp := runSerHistory(ts, blobs, h, nil); what != "" {
						report(h, what, fp)
					}
				}
			}
		}
	}
	// flush-edge sweeps: 16-byte value records (strings, flagged floats) and 8-byte ones at
	// every alignment around the 64 KiB value-block flush, and tag counts around the 64 Ki
	// tag-block flush
	w.Note("flush-edge sweeps: k integers (k = 8170..8200) followed by a string, an overflowed-integer float, a string and more integers, so that a 16-byte value record starts at every offset -176..+64 around the 64 KiB value flush; and arrays of k nulls for k = 65525..65545 around the 64 Ki tag flush; each serialized in modes none and default and read back")
	sweep := func(name string, text string) {
		w.res.States++
		if !w.Mine() || w.Expired() {
			return
		}
		pj, docs := mustParse(w, text, false, Cfg{hasAVX512, true})
		t := &serTape{name: name, pj: pj, docs: docs, exact: renderDocs(docs, renderExact), big: true}
		ts2 := append(append([]*serTape(nil), ts...), t)
		for _, m := range []int{0, 2} {
			h := []serOp{{Kind: 1, A: m}, {Kind: 0, A: len(ts2) - 1}, {Kind: 2, A: -1, Dst: 0}}
			w.res.Transitions += 3
			w.res.Evaluations++
			w.res.Validated++
			if what, fp := runSerHistory(ts2, blobs, h, nil); what != "" {
				w.Violate(Violation{Harness: "C11-flush-edge", Fingerprint: "C11/flush-edge/" + fp, What: name + ": " + what, Case: []byte(name), CaseText: name + " mode " + modeNames[m], Config: "asm"})
			}
		}
	}
	for k := 8170; k <= 8200; k++ {
		var sb strings.Builder
		sb.WriteByte('[')
		for i := 0; i < k; i++ {
			fmt.Fprintf(&sb, "%d,", i)
		}
		sb.WriteString(`"boundary string",123456789012345678901234567890,"second",`)
		for i := 0; i < 40; i++ {
			fmt.Fprintf(&sb, "%d,", -i)
		}
		sb.WriteString("0]")
		sweep(fmt.Sprintf("value-flush-edge-%d", k), sb.String())
	}
	for k := 65525; k <= 65545; k++ {
		sweep(fmt.Sprintf("tag-flush-edge-%d", k), "["+strings.Repeat("null,", k)+"1]")
	}
	// varint width boundaries of the section sizes written into the header (7-bit groups:
	// 127/128, 16383/16384): string-table bytes, tag count, value bytes; all four modes
	w.Note("varint-width sweeps: one string of every length 90..135 and 16360..16390 (string table), arrays of k nulls for k = 118..135 and 16374..16390 (tags), arrays of k integers for k = 12..20 and 2040..2056 (values), each alone in a document, serialized in all 4 modes and read back")
	sweep4 := func(name, text string) {
		w.res.States++
		if !w.Mine() || w.Expired() {
			return
		}
		pj, docs := mustParse(w, text, false, Cfg{hasAVX512, true})
		t := &serTape{name: name, pj: pj, docs: docs, exact: renderDocs(docs, renderExact), big: true}
		ts2 := append(append([]*serTape(nil), ts...), t)
		for m := 0; m < 4; m++ {
			h := []serOp{{Kind: 1, A: m}, {Kind: 0, A: len(ts2) - 1}, {Kind: 2, A: -1, Dst: 0}}
			w.res.Transitions += 3
			w.res.Evaluations++
			w.res.Validated++
			if what, fp := runSerHistory(ts2, blobs, h, nil); what != "" {
				w.Violate(Violation{Harness: "C11-varint-width", Fingerprint: "C11/varint-width/" + fp, What: name + ": " + what, Case: []byte(name), CaseText: name + " mode " + modeNames[m], Config: "asm"})
				return
			}
		}
	}
	noise := func(n int) string {
		// poorly compressible printable bytes
		b := make([]byte, n)
		x := uint32(2463534242)
		for i := range b {
			x ^= x << 13
			x ^= x >> 17
			x ^= x << 5
			b[i] = "abcdefghijklmnopqrstuvwxyzABCDEFGHIJKLMNOPQRSTUVWXYZ0123456789-_"[x%64]
		}
		return string(b)
	}
	for _, r := range [][2]int{{90, 135}, {16360, 16390}} {
		for k := r[0]; k <= r[1]; k++ {
			sweep4(fmt.Sprintf("string-table-%d-bytes", k), `["`+noise(k)+`"]`)
		}
	}
	for _, r := range [][2]int{{118, 135}, {16374, 16390}} {
		for k := r[0]; k <= r[1]; k++ {
			sweep4(fmt.Sprintf("tags-%d-nulls", k), "["+strings.Repeat("null,", k-1)+"null]")
		}
	}
	for _, r := range [][2]int{{12, 20}, {2040, 2056}} {
		for k := r[0]; k <= r[1]; k++ {
			var sb strings.Builder
			sb.WriteByte('[')
			for i := 0; i < k; i++ {
				if i > 0 {
					sb.WriteByte(',')
				}
				fmt.Fprintf(&sb, "%d", int64(i)*2654435761%1000003-500000)
			}
			sb.WriteByte(']')
			sweep4(fmt.Sprintf("values-%d-integers", k), sb.String())
		}
	}
	// big then small on one Serializer: Deserialize(big); Deserialize(small); Serialize(larger)
	w.Note("scratch buffers sized by a big stream: Serialize(big); Deserialize; Serialize(tiny); Deserialize; Serialize(small tape s); Deserialize for every big tape, every small tape s and modes none/default")
	for ti, t := range ts {
		if !t.big {
			continue
		}
		for _, si := range small {
			for _, m := range []int{0, 2} {
				w.res.States++
				if !w.Mine() || w.Expired() {
					continue
				}
				h := []serOp{{Kind: 1, A: m}, {Kind: 0, A: ti}, {Kind: 2, A: -1, Dst: 0}, {Kind: 0, A: small[0]}, {Kind: 2, A: -1, Dst: 1}, {Kind: 0, A: si}, {Kind: 2, A: -1, Dst: 1}}
				w.res.Transitions += int64(len(h))
				w.res.Evaluations++
				w.res.Validated++
				if what, fp := runSerHistory(ts, blobs, h, nil); what != "" {
					report(h, what, fp)
				}
			}
		}
	}
	w.Sample("history sample: CompressMode(fast); Serialize(deleted); Deserialize(blob[numbers/best], reused dst)")

	// noasm: write all blobs with their expected exact rendering; run.sh builds a reader
	// with -tags noasm and runs it over the file.
	if w.Shard == 0 {
		if dir := os.Getenv("VERIF_SCRATCH"); dir != "" {
			f, err := os.Create(filepath.Join(dir, "c11-blobs.bin"))
			if err == nil {
				for _, r := range recs {
					writeRec(f, []byte(r.Name))
					writeRec(f, r.Blob)
					writeRec(f, []byte(r.Exact))
				}
				f.Close()
				w.Count("blobs_written_for_noasm", int64(len(recs)))
			}
		}
	}
}

func writeRec(f *os.File, b []byte) {
	var l [8]byte
	binary.LittleEndian.PutUint64(l[:], uint64(len(b)))
	f.Write(l[:])
	f.Write(b)
}

func c11Replay(v *Violation) string {
	w := &W{Prop: "C11", distinct: map[uint64]struct{}{}, fpSeen: map[string]int{}, cur: &curFile{}}
	ts := c11Tapes(w)
	var blobs []blob
	for ti, t := range ts {
		for m := 0; m < 4; m++ {
			s := simdjson.NewSerializer()
			s.CompressMode(simdjson.CompressMode(m))
			b, _ := serialize(s, t.pj)
			blobs = append(blobs, blob{data: append([]byte(nil), b...), tape: ti, mode: m})
		}
	}
	var hist []serOp
	if err := json.Unmarshal(v.Case, &hist); err != nil {
		return "cannot decode history"
	}
	if what, _ := runSerHistory(ts, blobs, hist, nil); what != "" {
		return "FAIL " + what
	}
	return "OK"
}

var _ = bytes.Equal

func init() {
	register(&check{
		prop: "C11", name: "serialize-histories", level: "model_checking",
		rule:   "Every history of <= 3 operations over {Serialize(small tape), CompressMode(m), Deserialize(most recent blob or any pre-made blob of any tape x mode, destination nil / reused / previously filled by a larger tape)} is executed on one reused Serializer and one reused destination (real code, fresh objects per history); after every Serialize the blob is read by an independent fresh Serializer, after every Deserialize the result must denote the source tape exactly (ordered tree, number types, raw float bits and flags; strict tape format incl. rebuilt NOP runs). Big tapes (beyond the 64 Ki tag / 64 KiB value flush blocks, 4000+ strings with colliding buckets) run through every mode pair. All pre-made blobs are also read by a second binary built with -tags noasm. states=history prefixes, transitions=operations appended, traces_validated=histories executed and judged; distinct_nontrivial=distinct histories of >= 2 operations ending in a Deserialize on an already used Serializer.",
		assume: []string{"klauspost/compress (s2, zstd) as a black box", "reference trees from the models of the source tapes"},
		body:   c11Body,
		replay: c11Replay,
		post:   c11Post,
	})
}

// c11Post runs the noasm-built reader over every blob the asm build produced.
func c11Post(m *Result, tier string) {
	bin := os.Getenv("VERIF_NOASM_BIN")
	file := filepath.Join(os.Getenv("VERIF_SCRATCH"), "c11-blobs.bin")
	if bin == "" {
		m.Fatal = "noasm reader binary not provided (VERIF_NOASM_BIN)"
		return
	}
	out, err := exec.Command(bin, file).CombinedOutput()
	if m.Counters == nil {
		m.Counters = map[string]int64{}
	}
	lines := strings.Split(strings.TrimSpace(string(out)), "\n")
	for _, l := range lines {
		if strings.HasPrefix(l, "NOASM-MISMATCH") {
			m.Violations = append(m.Violations, Violation{Property: "C11", Harness: "C11-noasm", Fingerprint: "C11/noasm", What: "a blob written by the asm build is read differently by the noasm build: " + l, Case: []byte(l), Config: "noasm"})
		}
	}
	var n, bad int64
	if _, serr := fmt.Sscanf(lines[len(lines)-1], "noasm reader: %d blobs, %d mismatches", &n, &bad); serr != nil || (err != nil && bad == 0) {
		m.Fatal = "noasm reader failed: " + string(out)
		return
	}
	m.Counters["noasm_blobs_read"] = n
	m.Validated += n
	m.Evaluations += n
	m.Notes = append(m.Notes, fmt.Sprintf("noasm: %d blobs (every tape x 4 modes) deserialized by a binary built with -tags noasm and compared with the source documents", n))
}
