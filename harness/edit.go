package main

import (
	"bytes"
	"errors"
	"fmt"
	"math"
	"strings"

	simdjson "github.com/minio/simdjson-go"

	"verif/ref"
)

// ---- addressing ----

type vpath []int // [document index, child index, child index, ...]

func (p vpath) String() string {
	var sb strings.Builder
	for i, x := range p {
		if i > 0 {
			sb.WriteByte('.')
		}
		fmt.Fprint(&sb, x)
	}
	return sb.String()
}

func nodeAt(docs []*ref.Node, p vpath) *ref.Node {
	n := docs[p[0]]
	for _, i := range p[1:] {
		n = n.Elems[i]
	}
	return n
}

// valuePositions lists every value position (not keys, not the root containers' own
// slots... the root value itself is excluded: it is not a member of anything).
func valuePositions(docs []*ref.Node) []vpath {
	var out []vpath
	var rec func(n *ref.Node, p vpath)
	rec = func(n *ref.Node, p vpath) {
		for i, e := range n.Elems {
			q := append(append(vpath(nil), p...), i)
			out = append(out, q)
			rec(e, q)
		}
	}
	for d, n := range docs {
		rec(n, vpath{d})
	}
	return out
}

func containerPositions(docs []*ref.Node) []vpath {
	var out []vpath
	var rec func(n *ref.Node, p vpath)
	rec = func(n *ref.Node, p vpath) {
		if n.K == ref.KArr || n.K == ref.KObj {
			out = append(out, append(vpath(nil), p...))
		}
		for i, e := range n.Elems {
			rec(e, append(append(vpath(nil), p...), i))
		}
	}
	for d, n := range docs {
		rec(n, vpath{d})
	}
	return out
}

// long-lived destinations for route 3
var (
	navArrs [32]simdjson.Array
	navObjs [32]simdjson.Object
)

const nRoutes = 3

var routeNames = []string{"Advance/NextElementBytes", "AdvanceIter/Object.Parse", "ForEach", "AdvanceIter/NextElementBytes"}

// navigate returns an iterator positioned on the value at p, reached through the given
// family of traversal calls.
func navigate(pj *simdjson.ParsedJson, p vpath, route int) (cur *simdjson.Iter, err error) {
	defer func() {
		if r := recover(); r != nil {
			err = fmt.Errorf("PANIC while navigating: %v", r)
		}
	}()
	it := pj.Iter()
	for d := 0; d <= p[0]; d++ {
		if it.Advance() != simdjson.TypeRoot {
			return nil, errors.New("navigate: root not found")
		}
	}
	_, cur, err = it.Root(nil)
	if err != nil {
		return nil, err
	}
	for lvl, idx := range p[1:] {
		switch cur.Type() {
		case simdjson.TypeArray:
			var adst *simdjson.Array
			if route == 3 && lvl < len(navArrs) {
				adst = &navArrs[lvl] // long-lived destination, last used for some other document
			}
			arr, err := cur.Array(adst)
			if err != nil {
				return nil, err
			}
			ar := route
			if route == 3 {
				ar = 1
			}
			switch ar {
			case 0:
				i := arr.Iter()
				for k := 0; k <= idx; k++ {
					if i.Advance() == simdjson.TypeNone {
						return nil, fmt.Errorf("navigate: array element %d not found (Advance)", idx)
					}
				}
				cur = &i
			case 1:
				i := arr.Iter()
				var e simdjson.Iter
				for k := 0; k <= idx; k++ {
					t, err := i.AdvanceIter(&e)
					if err != nil {
						return nil, err
					}
					if t == simdjson.TypeNone {
						return nil, fmt.Errorf("navigate: array element %d not found (AdvanceIter)", idx)
					}
				}
				cur = &e
			default:
				n := 0
				var found *simdjson.Iter
				arr.ForEach(func(i simdjson.Iter) {
					if n == idx {
						c := i
						found = &c
					}
					n++
				})
				if found == nil {
					return nil, fmt.Errorf("navigate: array element %d not found (ForEach)", idx)
				}
				cur = found
			}
		case simdjson.TypeObject:
			var odst *simdjson.Object
			if route == 3 && lvl < len(navObjs) {
				odst = &navObjs[lvl]
			}
			obj, err := cur.Object(odst)
			if err != nil {
				return nil, err
			}
			or := route
			if route == 3 {
				or = 0
			}
			switch or {
			case 0:
				var tmp simdjson.Iter
				for k := 0; k <= idx; k++ {
					_, t, err := obj.NextElementBytes(&tmp)
					if err != nil {
						return nil, err
					}
					if t == simdjson.TypeNone {
						return nil, fmt.Errorf("navigate: object member %d not found (NextElementBytes)", idx)
					}
				}
				cur = &tmp
			case 1:
				els, err := obj.Parse(nil)
				if err != nil {
					return nil, err
				}
				if idx >= len(els.Elements) {
					return nil, fmt.Errorf("navigate: object member %d not found (Parse)", idx)
				}
				cur = &els.Elements[idx].Iter
			default:
				n := 0
				var found *simdjson.Iter
				err := obj.ForEach(func(key []byte, i simdjson.Iter) {
					if n == idx {
						c := i
						found = &c
					}
					n++
				}, nil)
				if err != nil {
					return nil, err
				}
				if found == nil {
					return nil, fmt.Errorf("navigate: object member %d not found (ForEach)", idx)
				}
				cur = found
			}
		default:
			return nil, fmt.Errorf("navigate: path runs through a %v", cur.Type())
		}
	}
	return cur, nil
}

// ---- operations ----

const (
	opSetNull = iota
	opSetTrue
	opSetFalse
	opSetInt
	opSetUint
	opSetFloat
	opSetStrEmpty
	opSetStrEsc
	opSetStrBytes
	nSetOps
	opObjDelete = 20
	opArrDelete = 21
)

var setNames = []string{"SetNull", "SetBool(true)", "SetBool(false)", "SetInt(-5 | MaxInt64 | MinInt64 by route)", "SetUInt(2^64-1 | 2^63-1 | 2^63 by route)", "SetFloat(2.5 | 1e21 | 5e-324 by route)", `SetString("")`, `SetString("x\"\n")`, "SetStringBytes(40B)"}

var fortyBytes = []byte("0123456789abcdefghijABCDEFGHIJ\x00\x01\x7f\"\\/\n\t\r\b")

type editOp struct {
	kind   int
	p      vpath
	route  int
	subset uint32 // delete: members selected
	form   int    // object delete call form 0..3
}

func (o editOp) String() string {
	if o.kind < nSetOps {
		return fmt.Sprintf("%s@%s via %s", setNames[o.kind], o.p, routeNames[o.route])
	}
	what := "Array.DeleteElems"
	if o.kind == opObjDelete {
		what = fmt.Sprintf("Object.DeleteElems[form %d]", o.form)
	}
	return fmt.Sprintf("%s@%s subset=%b via %s", what, o.p, o.subset, routeNames[o.route])
}

// the numeric Set* calls write a different value per navigation route, so that small,
// boundary and large values are all written at every position
var (
	setIntVals   = [3]int64{-5, math.MaxInt64, math.MinInt64}
	setUintVals  = [3]uint64{math.MaxUint64, math.MaxInt64, 1 << 63}
	setFloatVals = [3]float64{2.5, 1e21, 5e-324}
)

func setValueNodeOp(o editOp) *ref.Node {
	r := o.route % 3
	switch o.kind {
	case opSetInt:
		return ref.Int(setIntVals[r])
	case opSetUint:
		return ref.Uint(setUintVals[r])
	case opSetFloat:
		return ref.Float(setFloatVals[r])
	}
	return setValueNode(o.kind)
}

func setValueNode(kind int) *ref.Node {
	switch kind {
	case opSetNull:
		return ref.Null()
	case opSetTrue:
		return ref.Bool(true)
	case opSetFalse:
		return ref.Bool(false)
	case opSetInt:
		return ref.Int(-5)
	case opSetUint:
		return ref.Uint(math.MaxUint64)
	case opSetFloat:
		return ref.Float(2.5)
	case opSetStrEmpty:
		return ref.Str("")
	case opSetStrEsc:
		return ref.Str("x\"\n")
	default:
		return &ref.Node{K: ref.KStr, S: append([]byte(nil), fortyBytes...)}
	}
}

func setAllowed(kind int, target ref.Kind) bool {
	numstr := target == ref.KStr || target == ref.KInt || target == ref.KUint || target == ref.KFloat
	boolnull := target == ref.KTrue || target == ref.KFalse || target == ref.KNull
	switch kind {
	case opSetNull:
		return true
	case opSetTrue, opSetFalse:
		return boolnull
	default:
		return numstr
	}
}

// deleteSelection computes which members a delete op removes and which it calls back.
func deleteSelection(n *ref.Node, o editOp) (del []bool, callbacks []int) {
	m := len(n.Elems)
	del = make([]bool, m)
	sel := func(i int) bool { return o.subset&(1<<uint(i)) != 0 }
	if o.kind == opArrDelete {
		for i := 0; i < m; i++ {
			callbacks = append(callbacks, i)
			del[i] = sel(i)
		}
		return
	}
	switch o.form {
	case 0: // predicate only
		for i := 0; i < m; i++ {
			callbacks = append(callbacks, i)
			del[i] = sel(i)
		}
	case 1: // filter only
		for i := 0; i < m; i++ {
			del[i] = sel(i)
		}
	case 2: // filter = subset, predicate true for every other filtered member
		k := 0
		for i := 0; i < m; i++ {
			if sel(i) {
				callbacks = append(callbacks, i)
				del[i] = k%2 == 0
				k++
			}
		}
	case 3: // both nil: everything
		for i := 0; i < m; i++ {
			del[i] = true
		}
	}
	return
}

// applyModel returns the documents after the op and whether the op is one the
// documentation allows (otherwise the state must stay unchanged and an error come back).
func applyModel(docs []*ref.Node, o editOp) ([]*ref.Node, bool) {
	out := make([]*ref.Node, len(docs))
	for i, d := range docs {
		out[i] = d.Clone()
	}
	if o.kind < nSetOps && len(o.p) == 1 {
		// the document's top-level container itself (only SetNull applies to a container)
		if !setAllowed(o.kind, out[o.p[0]].K) {
			return out, false
		}
		out[o.p[0]] = setValueNodeOp(o)
		return out, true
	}
	if o.kind < nSetOps {
		parent := nodeAt(out, o.p[:len(o.p)-1])
		idx := o.p[len(o.p)-1]
		if !setAllowed(o.kind, parent.Elems[idx].K) {
			return out, false
		}
		parent.Elems[idx] = setValueNodeOp(o)
		return out, true
	}
	n := nodeAt(out, o.p)
	del, _ := deleteSelection(n, o)
	var keys [][]byte
	var elems []*ref.Node
	for i, e := range n.Elems {
		if del[i] {
			continue
		}
		elems = append(elems, e)
		if n.K == ref.KObj {
			keys = append(keys, n.Keys[i])
		}
	}
	n.Elems, n.Keys = elems, keys
	return out, true
}

func uniqueKeys(n *ref.Node) bool {
	seen := map[string]bool{}
	for _, k := range n.Keys {
		if seen[string(k)] {
			return false
		}
		seen[string(k)] = true
	}
	return true
}

// applySet makes the Set* call of o on the given iterator.
func applySet(it *simdjson.Iter, o editOp) error {
	switch o.kind {
	case opSetNull:
		return it.SetNull()
	case opSetTrue:
		return it.SetBool(true)
	case opSetFalse:
		return it.SetBool(false)
	case opSetInt:
		return it.SetInt(setIntVals[o.route%3])
	case opSetUint:
		return it.SetUInt(setUintVals[o.route%3])
	case opSetFloat:
		return it.SetFloat(setFloatVals[o.route%3])
	case opSetStrEmpty:
		return it.SetString("")
	case opSetStrEsc:
		return it.SetString("x\"\n")
	}
	return it.SetStringBytes(fortyBytes)
}

// applyReal performs the op on the real tape. It returns the API error (if any) and a
// description of a callback-protocol violation ("" if fine).
func applyReal(pj *simdjson.ParsedJson, docs []*ref.Node, o editOp) (apiErr error, protocol string) {
	defer func() {
		if r := recover(); r != nil {
			protocol = fmt.Sprintf("PANIC in %v: %v", o, r)
		}
	}()
	it, err := navigate(pj, o.p, o.route)
	if err != nil {
		return nil, "cannot reach position: " + err.Error()
	}
	if o.kind < nSetOps {
		serr := applySet(it, o)
		if serr == nil {
			// the iterator the call was made on must read the new value too (callers keep
			// using the element iterator they edited through)
			want := setValueNodeOp(o)
			wk := &walker{budget: 1 << 16}
			got, rerr := wk.value(it)
			if rerr != nil || got.Render() != want.Render() {
				return nil, fmt.Sprintf("%v succeeded, but the iterator it was called on now reads %v (%v), new value is %s", o, got, rerr, want.Render())
			}
		}
		return serr, ""
	}
	n := nodeAt(docs, o.p)
	del, callbacks := deleteSelection(n, o)
	var log []int
	cbBad := ""
	ci := 0
	onMember := func(key []byte, i simdjson.Iter) bool {
		if ci >= len(callbacks) {
			cbBad = "more callbacks than members"
			return false
		}
		m := callbacks[ci]
		ci++
		log = append(log, m)
		if n.K == ref.KObj && !bytes.Equal(key, n.Keys[m]) {
			cbBad = fmt.Sprintf("callback %d got key %q, member key is %q", ci-1, key, n.Keys[m])
		}
		w := &walker{budget: 1 << 24}
		got, err := w.value(&i)
		if err != nil {
			cbBad = fmt.Sprintf("callback %d: value unreadable: %v", ci-1, err)
		} else if got.Render() != n.Elems[m].Render() {
			cbBad = fmt.Sprintf("callback %d got value %s, member value is %s", ci-1, clip(got.Render()), clip(n.Elems[m].Render()))
		}
		return del[m]
	}
	if o.kind == opArrDelete {
		arr, err := it.Array(nil)
		if err != nil {
			return err, ""
		}
		arr.DeleteElems(func(i simdjson.Iter) bool { return onMember(nil, i) })
	} else {
		obj, err := it.Object(nil)
		if err != nil {
			return err, ""
		}
		var filter map[string]struct{}
		if o.form == 1 || o.form == 2 {
			filter = map[string]struct{}{}
			for i := range n.Elems {
				if o.subset&(1<<uint(i)) != 0 {
					filter[string(n.Keys[i])] = struct{}{}
				}
			}
		}
		var fn func(key []byte, i simdjson.Iter) bool
		if o.form == 0 || o.form == 2 {
			fn = onMember
		}
		var twin *simdjson.ParsedJson
		if filter != nil && uniqueKeys(n) {
			twin = pj.Clone(nil)
		}
		if err := obj.DeleteElems(fn, filter); err != nil {
			return err, ""
		}
		if twin != nil && cbBad == "" {
			// the caller keeps its filter: the very same map handed to the same call on a copy
			// of the document as it was has to select the same members once more
			if tit, terr := navigate(twin, o.p, o.route); terr == nil {
				if tobj, oerr := tit.Object(nil); oerr == nil {
					var tfn func(key []byte, i simdjson.Iter) bool
					if fn != nil {
						tfn = func(key []byte, i simdjson.Iter) bool {
							for m := range n.Elems {
								if bytes.Equal(n.Keys[m], key) {
									return del[m]
								}
							}
							return false
						}
					}
					if err := tobj.DeleteElems(tfn, filter); err != nil {
						return nil, fmt.Sprintf("the same DeleteElems call with the same filter map on a copy of the document fails: %v", err)
					}
					if a, b := stateKey(pj), stateKey(twin); a != b {
						return nil, fmt.Sprintf("the filter map of the first call (%d keys selected), handed to the same DeleteElems call on a copy of the document as it was, leaves a different document: the first call changed its caller's filter (now %d keys)", bitsSet(o.subset, len(n.Elems)), len(filter))
					}
				}
			}
		}
	}
	if cbBad != "" {
		return nil, cbBad
	}
	if len(log) != len(callbacks) {
		return nil, fmt.Sprintf("callback visited members %v, expected %v (each once, in order)", log, callbacks)
	}
	return nil, ""
}

// ---- serialize round trip ----

var modeNames = []string{"none", "fast", "default", "best"}

func serialize(s *simdjson.Serializer, pj *simdjson.ParsedJson) (out []byte, panicked string) {
	defer func() {
		if r := recover(); r != nil {
			panicked = fmt.Sprint(r)
		}
	}()
	// every other call hands Serialize an empty destination with dirty spare capacity (a few bytes,
	// so the blob outgrows it, or a lot): the blob must not depend on it
	serializeFlip++
	switch serializeFlip % 4 {
	case 1, 3:
		return s.Serialize(nil, *pj), ""
	}
	n := 5
	if serializeFlip%4 == 2 {
		n = 1 << 12
	}
	if cap(serializeDirty) < n {
		serializeDirty = make([]byte, n)
	}
	d := serializeDirty[:n]
	for i := range d {
		d[i] = 0xFF
	}
	out = s.Serialize(d[:0:n], *pj)
	return append([]byte(nil), out...), ""
}

var (
	serializeFlip  int
	serializeDirty []byte
)

func deserialize(s *simdjson.Serializer, b []byte, dst *simdjson.ParsedJson) (pj *simdjson.ParsedJson, err error, panicked string) {
	defer func() {
		if r := recover(); r != nil {
			panicked = fmt.Sprint(r)
		}
	}()
	pj, err = s.Deserialize(b, dst)
	return
}

// roundTrip serializes with mode m and deserializes with a fresh serializer in mode m2.
func roundTrip(pj *simdjson.ParsedJson, m, m2 simdjson.CompressMode) (*simdjson.ParsedJson, string) {
	s := simdjson.NewSerializer()
	s.CompressMode(m)
	b, p := serialize(s, pj)
	if p != "" {
		return nil, "Serialize panicked: " + p
	}
	d := simdjson.NewSerializer()
	d.CompressMode(m2)
	out, err, p := deserialize(d, b, nil)
	if p != "" {
		return nil, "Deserialize panicked: " + p
	}
	if err != nil {
		return nil, "Deserialize of freshly serialized tape failed: " + err.Error()
	}
	return out, ""
}

// ---- per-state agreement oracle (C13/C14/C10/C17 share it) ----

// stateAgreement checks every read API, marshal and a serialize round trip against docs.
func stateAgreement(pj *simdjson.ParsedJson, docs []*ref.Node, mode simdjson.CompressMode) (what, api string) {
	// gaps: no NOP may jump over a live entry (an iterator standing inside a container when it
	// is nulled or emptied continues from inside the gap)
	if err := tapeErr(pj, ref.TapeOpts{AllowNop: true, NopNoOvershoot: true}); err != nil {
		return "edited tape: " + err.Error(), "tape format"
	}
	ex := mkExpect(docs)
	if what, walker := compareWalkers(pj, ex, true); what != "" {
		return what, walker
	}
	if what := lookupAgreement(pj, docs); what != "" {
		return what, "FindKey/FindPath"
	}
	if what := marshalInner(pj, docs); what != "" {
		return what, "MarshalJSON(inner)"
	}
	// every array also through the element-wise numeric accessors and the bulk accessors
	for _, cp := range containerPositions(docs) {
		if n := nodeAt(docs, cp); n.K == ref.KArr {
			if what, fp := c12ArrayAccessorsAt(pj, cp, n); what != "" {
				return fmt.Sprintf("array at %v: %s", cp, what), "Array accessors/" + fp
			}
		}
	}
	rt, what := roundTrip(pj, mode, simdjson.CompressMode((int(mode)+1)%4))
	if what != "" {
		return what, "serialize round trip"
	}
	if err := tapeErr(rt, ref.TapeOpts{AllowNop: true, StrictNop: true}); err != nil {
		return "deserialized tape violates the format: " + err.Error(), "serialize round trip/tape format"
	}
	if what, walker := compareWalkers(rt, ex, true); what != "" {
		return "after serialize round trip: " + what, "serialize round trip/" + walker
	}
	// the source object must not be affected by a Deserialize into a fresh destination
	if docs2, werr := walkFlat(pj); werr != nil || renderDocs(docs2, renderExact) != ex.exact {
		return fmt.Sprintf("after serializing it and deserializing the bytes into a fresh destination, the source object reads %s (%v), was %s", clip(renderDocs(docs2, renderExact)), werr, clip(ex.exact)), "serialize round trip/source-changed"
	}
	return "", ""
}

// lookupAgreement: FindKey on every object for every present key (first member) and an
// absent key; FindPath for every key path to depth 3.
var marshalElements *simdjson.Elements // long-lived Object.Parse destination of marshalInner

var (
	editElements *simdjson.Elements  // long-lived Object.Parse destination
	editKeysSeen = map[string]bool{} // every member name any checked object ever had
)

func lookupAgreement(pj *simdjson.ParsedJson, docs []*ref.Node) (what string) {
	defer func() {
		if r := recover(); r != nil {
			what = fmt.Sprintf("PANIC in lookup: %v", r)
		}
	}()
	for _, cp := range containerPositions(docs) {
		n := nodeAt(docs, cp)
		if n.K != ref.KObj {
			continue
		}
		it, err := navigate(pj, cp, 0)
		if err != nil {
			return "cannot reach object: " + err.Error()
		}
		obj, err := it.Object(nil)
		if err != nil {
			return "Object(): " + err.Error()
		}
		keys := map[string]bool{"\x00absent": true}
		for _, k := range n.Keys {
			keys[string(k)] = true
			editKeysSeen[string(k)] = true
		}
		// Object.Parse into one long-lived Elements (last filled from another object or an
		// earlier state of this one) + Lookup of every key ever seen, present or deleted
		if obj2, oerr := it.Object(nil); oerr == nil {
			els, perr := obj2.Parse(editElements)
			if perr != nil {
				return fmt.Sprintf("Object.Parse at %s: %v", cp, perr)
			}
			editElements = els
			if len(els.Elements) != len(n.Elems) {
				return fmt.Sprintf("Object.Parse(reused Elements) at %s lists %d members, object has %d", cp, len(els.Elements), len(n.Elems))
			}
			for k := range editKeysSeen {
				var want *ref.Node
				for i, mk := range n.Keys {
					if string(mk) == k {
						want = n.Elems[i] // the last member with that name is the one indexed
					}
				}
				el := els.Lookup(k)
				switch {
				case want == nil && el != nil:
					return fmt.Sprintf("Elements.Lookup(%q) after Object.Parse(reused Elements) at %s finds a member that does not exist (any more)", k, cp)
				case want != nil && el == nil:
					return fmt.Sprintf("Elements.Lookup(%q) after Object.Parse(reused Elements) at %s returned nil, member exists", k, cp)
				case want != nil:
					wk := &walker{budget: 1 << 16}
					got, verr := wk.value(&el.Iter)
					if verr != nil || got.Render() != want.Render() {
						return fmt.Sprintf("Elements.Lookup(%q) at %s returned %v (%v), member is %s", k, cp, got, verr, clip(want.Render()))
					}
				}
			}
		}
		for k := range keys {
			var want *ref.Node
			for i, mk := range n.Keys {
				if string(mk) == k {
					want = n.Elems[i]
					break
				}
			}
			el := obj.FindKey(k, nil)
			switch {
			case want == nil && el != nil:
				return fmt.Sprintf("FindKey(%q) at %s found a member that does not exist", k, cp)
			case want != nil && el == nil:
				return fmt.Sprintf("FindKey(%q) at %s returned nil, member exists", k, cp)
			case want != nil:
				w := &walker{budget: 1 << 16}
				got, err := w.value(&el.Iter)
				if err != nil {
					return fmt.Sprintf("FindKey(%q) at %s: value unreadable: %v", k, cp, err)
				}
				if got.Render() != want.Render() {
					return fmt.Sprintf("FindKey(%q) at %s returned %s, first member with that key is %s", k, cp, clip(got.Render()), clip(want.Render()))
				}
			}
			// FindPath, one level
			el2, err := obj.FindPath(nil, k)
			switch {
			case want == nil && err != simdjson.ErrPathNotFound:
				return fmt.Sprintf("FindPath(%q) at %s: expected ErrPathNotFound, got %v", k, cp, err)
			case want != nil && err != nil:
				return fmt.Sprintf("FindPath(%q) at %s: %v", k, cp, err)
			case want != nil:
				w := &walker{budget: 1 << 16}
				got, err := w.value(&el2.Iter)
				if err != nil || got.Render() != want.Render() {
					return fmt.Sprintf("FindPath(%q) at %s returned %v (%v), want %s", k, cp, got, err, clip(want.Render()))
				}
			}
		}
	}
	return ""
}

// marshalInner marshals from an iterator on every inner value and from Array/Elements.
func marshalInner(pj *simdjson.ParsedJson, docs []*ref.Node) (what string) {
	defer func() {
		if r := recover(); r != nil {
			what = fmt.Sprintf("PANIC in inner MarshalJSON: %v", r)
		}
	}()
	cmp := func(out []byte, err error, want *ref.Node, api string, p vpath) string {
		if err != nil {
			return fmt.Sprintf("%s at %s: %v", api, p, err)
		}
		got, ok := parseAnyValue(out)
		if !ok {
			return fmt.Sprintf("%s at %s produced invalid JSON: %s", api, p, clip(string(out)))
		}
		if !ref.NumericEqual(want, got) {
			return fmt.Sprintf("%s at %s denotes %s, value is %s", api, p, clip(got.RenderNumeric()), clip(want.RenderNumeric()))
		}
		return ""
	}
	positions := valuePositions(docs)
	// the root values themselves, through the iterator Root() hands out (its scope ends in front
	// of the closing root entry, so after a top-level SetNull it ends in a gap)
	for d := len(docs) - 1; d >= 0; d-- {
		positions = append([]vpath{{d}}, positions...)
	}
	if len(positions) > 240 {
		// very large documents: reaching position i costs O(i), so only the first k, the last
		// k and k evenly spaced positions are marshalled (k = 80, or 8 above 3000 positions)
		k := 80
		if len(positions) > 3000 {
			k = 8
		}
		var sel []vpath
		sel = append(sel, positions[:k]...)
		step := (len(positions) - 2*k) / k
		if step < 1 {
			step = 1
		}
		for i := k; i < len(positions)-k; i += step {
			sel = append(sel, positions[i])
		}
		sel = append(sel, positions[len(positions)-k:]...)
		positions = sel
	}
	for _, p := range positions {
		want := nodeAt(docs, p)
		for _, route := range []int{1, 3} {
			// only iterators restricted to one value (AdvanceIter, NextElement, Parse)
			it, err := navigate(pj, p, route)
			if err != nil {
				return "cannot reach value: " + err.Error()
			}
			c := *it
			out, err := c.MarshalJSON()
			if s := cmp(out, err, want, "Iter.MarshalJSON via "+routeNames[route], p); s != "" {
				return s
			}
			cb := *it
			if s := bufferVariant("Iter.MarshalJSON", out, cb.MarshalJSONBuffer); s != "" {
				return s + " at " + p.String()
			}
			switch want.K {
			case ref.KArr:
				arr, err := it.Array(nil)
				if err != nil {
					return err.Error()
				}
				out, err := arr.MarshalJSON()
				if s := cmp(out, err, want, "Array.MarshalJSON", p); s != "" {
					return s
				}
				if arr2, err := it.Array(nil); err == nil {
					if s := bufferVariant("Array.MarshalJSON", out, arr2.MarshalJSONBuffer); s != "" {
						return s + " at " + p.String()
					}
				}
			case ref.KObj:
				if !uniqueKeys(want) {
					break
				}
				obj, err := it.Object(nil)
				if err != nil {
					return err.Error()
				}
				// one long-lived Elements, last filled from some other object
				els, err := obj.Parse(marshalElements)
				if err != nil {
					return "Object.Parse: " + err.Error()
				}
				marshalElements = els
				out, err := els.MarshalJSON()
				if s := cmp(out, err, want, "Elements.MarshalJSON", p); s != "" {
					return s
				}
				// Elements is passed by value and MarshalJSON is a read: a second call gives the
				// same bytes and the member iterators are still usable afterwards
				out2, err2 := els.MarshalJSON()
				if s := bufferVariant("Elements.MarshalJSON", out, els.MarshalJSONBuffer); s != "" {
					return s + " at " + p.String()
				}
				if err2 != nil || string(out2) != string(out) {
					return fmt.Sprintf("Elements.MarshalJSON at %s called a second time on the same Elements: %s (%v), first call gave %s", p, clip(string(out2)), err2, clip(string(out)))
				}
				for i := range els.Elements {
					wk := &walker{budget: 1 << 16}
					got, verr := wk.value(&els.Elements[i].Iter)
					if verr != nil || got.Render() != want.Elems[i].Render() {
						return fmt.Sprintf("member %q of the Elements at %s read after Elements.MarshalJSON: %v (%v), member is %s", els.Elements[i].Name, p, got, verr, clip(want.Elems[i].Render()))
					}
				}
			}
		}
	}
	return ""
}

// parseAnyValue parses a JSON text whose root may be any value.
func parseAnyValue(b []byte) (*ref.Node, bool) {
	d, v := ref.Parse(append(append([]byte{'['}, b...), ']'))
	if v == ref.Invalid || d == nil || len(d.Elems) != 1 {
		return nil, false
	}
	return d.Elems[0], true
}

func stateKey(pj *simdjson.ParsedJson) string {
	var sb strings.Builder
	for _, v := range pj.Tape {
		var b [8]byte
		for i := 0; i < 8; i++ {
			b[i] = byte(v >> (8 * i))
		}
		sb.Write(b[:])
	}
	sb.WriteByte('|')
	if pj.Strings != nil {
		sb.Write(pj.Strings.B)
	}
	return sb.String()
}

func bitsSet(mask uint32, n int) int {
	c := 0
	for i := 0; i < n; i++ {
		if mask&(1<<uint(i)) != 0 {
			c++
		}
	}
	return c
}
