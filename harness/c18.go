package main

import (
	"bytes"
	"encoding/binary"
	"encoding/json"
	"fmt"
	"math"
	"strconv"

	simdjson "github.com/minio/simdjson-go"
)

type c18ctx struct {
	w     *W
	n     int64
	cfg   Cfg
	pj    *simdjson.ParsedJson
	buf   []byte
	jbuf  bytes.Buffer
	enc   *json.Encoder
	name  string
	count int64
}

func newC18(w *W) *c18ctx {
	c := &c18ctx{w: w, cfg: Cfg{hasAVX512, true}}
	c.enc = json.NewEncoder(&c.jbuf)
	pj, err, p := doParse(c.cfg, []byte(`[1.5]`), nil, false)
	if err != nil || p != "" {
		w.Fatal("cannot parse [1.5]: %v %v", err, p)
	}
	c.pj = pj
	return c
}

// shortest reports whether no decimal with fewer significant digits round-trips to f.
func shortestOK(out []byte, f float64) bool {
	s := string(out)
	neg := false
	if s[0] == '-' {
		neg = true
		s = s[1:]
	}
	mant, exp := s, ""
	for i := 0; i < len(s); i++ {
		if s[i] == 'e' {
			mant, exp = s[:i], s[i:]
			break
		}
	}
	// collect significant digits and the decimal exponent of the first digit
	digits := make([]byte, 0, 20)
	pointPos := -1
	for i := 0; i < len(mant); i++ {
		if mant[i] == '.' {
			pointPos = len(digits)
			continue
		}
		digits = append(digits, mant[i])
	}
	if pointPos < 0 {
		pointPos = len(digits)
	}
	// strip leading zeros
	lead := 0
	for lead < len(digits)-1 && digits[lead] == '0' {
		lead++
	}
	digits = digits[lead:]
	pointPos -= lead
	// strip trailing zeros
	for len(digits) > 1 && digits[len(digits)-1] == '0' {
		digits = digits[:len(digits)-1]
	}
	n := len(digits)
	if n <= 1 {
		return true
	}
	e10 := 0
	if exp != "" {
		e10, _ = strconv.Atoi(exp[1:])
	}
	// value = 0.d1d2..dn x 10^(pointPos+e10)
	try := func(d []byte) bool {
		lit := "0." + string(d) + "e" + strconv.Itoa(pointPos+e10)
		g, err := strconv.ParseFloat(lit, 64)
		if err != nil {
			return false
		}
		if neg {
			g = -g
		}
		return math.Float64bits(g) == math.Float64bits(f)
	}
	short := append([]byte(nil), digits[:n-1]...)
	if try(short) {
		return false
	}
	// rounded up variant
	up := append([]byte(nil), short...)
	i := len(up) - 1
	for i >= 0 {
		if up[i] < '9' {
			up[i]++
			break
		}
		up[i] = '0'
		i--
	}
	if i >= 0 && try(up) {
		return false
	}
	return true
}

var c18Prefixes = [...]string{"", "[1e-7,", "\"e-07\":", "-0.", "1.0", "2e-0", "0.000000", "[1.5e-9,\"e-0\",9"}

func c18Append(dst []byte, f float64) (out []byte, err error, panicked string) {
	defer func() {
		if r := recover(); r != nil {
			panicked = fmt.Sprint(r)
		}
	}()
	out, err = simdjson.VerifAppendFloat(dst, f)
	return
}

func (c *c18ctx) check(f float64) {
	if math.IsInf(f, 0) || math.IsNaN(f) {
		return
	}
	w := c.w
	c.count++
	if c.count&1023 == 0 {
		// the case file names the value being printed (crash attribution, watchdog progress)
		var cs [8]byte
		binary.LittleEndian.PutUint64(cs[:], math.Float64bits(f))
		w.cur.Set(c.name, c.cfg.String(), cs[:])
	}
	w.res.Evaluations++
	w.res.Transitions++
	// the number is appended to a buffer that already holds output (as inside MarshalJSON):
	// prefixes ending in bytes the writer or its exponent clean-up could take for its own
	pre := c18Prefixes[int(c.count%int64(len(c18Prefixes)))]
	full, err, pan := c18Append(append(c.buf[:0], pre...), f)
	if pan != "" {
		var cs [8]byte
		binary.LittleEndian.PutUint64(cs[:], math.Float64bits(f))
		w.Violate(Violation{Harness: c.name, Fingerprint: "C18/panic", What: "formatting a finite value panicked: " + pan, Case: cs[:], CaseText: fmt.Sprintf("float64 bits 0x%016x (%g)", math.Float64bits(f), f), Config: c.cfg.String()})
		c.buf = nil
		return
	}
	out := full
	w.res.Validated++
	bad, fp := "", ""
	if err == nil {
		c.buf = full[:0]
		if len(full) < len(pre) || string(full[:len(pre)]) != pre {
			bad, fp = fmt.Sprintf("appending to a buffer holding %q gives %q: the bytes in front of the number were changed", pre, full), "prefix-damaged"
			out = nil
		} else {
			out = full[len(pre):]
		}
	}
	if bad != "" {
	} else if err != nil {
		bad, fp = "error for a finite value: "+err.Error(), "error"
	} else {
		c.jbuf.Reset()
		c.enc.Encode(f)
		want := c.jbuf.Bytes()
		want = want[:len(want)-1]
		if !bytes.Equal(out, want) {
			bad, fp = fmt.Sprintf("printed %s, encoding/json prints %s", out, want), "differs-from-encoding/json"
		} else if g, perr := strconv.ParseFloat(string(out), 64); perr != nil || math.Float64bits(g) != math.Float64bits(f) {
			bad, fp = fmt.Sprintf("printed %s which parses back to %x, value is %x", out, math.Float64bits(g), math.Float64bits(f)), "no-round-trip"
		} else if c.count&63 == 0 && !shortestOK(out, f) {
			bad, fp = fmt.Sprintf("printed %s but a shorter decimal round-trips", out), "not-shortest"
		}
	}
	// bind to the public API on a stride: SetFloat + MarshalJSON + StringCvt
	if bad == "" && c.count&1023 == 0 {
		it, nerr := navigate(c.pj, vpath{0, 0}, 1)
		if nerr != nil {
			w.Fatal("navigate: %v", nerr)
		}
		if serr := it.SetFloat(f); serr != nil {
			w.Fatal("SetFloat: %v", serr)
		}
		root := c.pj.Iter()
		js, merr := root.MarshalJSON()
		sc, cerr := it.StringCvt()
		want := "[" + string(out) + "]"
		if merr != nil || string(js) != want {
			bad, fp = fmt.Sprintf("Iter.MarshalJSON gives %s (%v), appendFloat gives %s", js, merr, want), "api-marshal"
		} else if cerr != nil || sc != string(out) {
			bad, fp = fmt.Sprintf("StringCvt gives %s (%v), want %s", sc, cerr, out), "api-stringcvt"
		}
		w.Count("api_bound_checks", 1)
	}
	if bad != "" {
		var cs [8]byte
		b := math.Float64bits(f)
		for i := 0; i < 8; i++ {
			cs[i] = byte(b >> (8 * i))
		}
		w.Violate(Violation{Harness: c.name, Fingerprint: "C18/" + fp, What: bad, Case: cs[:], CaseText: fmt.Sprintf("float64 bits 0x%016x (%g)", b, f), Config: c.cfg.String()})
	}
	if c.count&255 == 0 {
		w.Distinct(math.Float64bits(f))
	}
}

func c18Body(w *W) {
	c := newC18(w)
	// F1: float32 patterns widened
	stride := uint64(61)
	if w.Thorough() {
		stride = 1
	}
	w.Note(fmt.Sprintf("F1: float32 bit patterns widened to float64, stride %d (thorough: all 2^32)", stride))
	c.name = "F1-float32"
	for blk := uint64(0); blk < 1<<12; blk++ {
		w.res.States++
		if !w.Mine() || w.Expired() {
			continue
		}
		for u := blk << 20; u < (blk+1)<<20; u += stride {
			c.check(float64(math.Float32frombits(uint32(u))))
		}
	}
	// F2: 12 leading / 12 trailing mantissa bits free, all exponents, both signs
	fb := uint(12)
	if w.Thorough() {
		fb = 16
	}
	w.Note(fmt.Sprintf("F2: all doubles with only the top %d mantissa bits free, only the bottom %d free (rest 0) and bottom %d free (rest 1), x all 2047 finite exponent fields x both signs", fb, fb, fb))
	c.name = "F2-mantissa-edges"
	for e := uint64(0); e <= 2046; e++ {
		w.res.States++
		if !w.Mine() || w.Expired() {
			continue
		}
		for m := uint64(0); m < 1<<fb; m++ {
			for _, mant := range []uint64{m << (52 - fb), m, m | (1<<52 - 1<<fb)} {
				bits := e<<52 | mant
				c.check(math.Float64frombits(bits))
				c.check(math.Float64frombits(bits | 1<<63))
			}
		}
	}
	// F3: decimal lattice
	digs := 9999
	if w.Thorough() {
		digs = 999999
	}
	w.Note(fmt.Sprintf("F3: nearest doubles of every decimal d.ddd x 10^e, mantissa 1..%d, e in -330..310", digs))
	c.name = "F3-decimal-lattice"
	for m := 1; m <= digs; m++ {
		w.res.States++
		if !w.Mine() || w.Expired() {
			continue
		}
		ms := strconv.Itoa(m)
		for e := -330; e <= 310; e++ {
			f, err := strconv.ParseFloat(ms+"e"+strconv.Itoa(e), 64)
			if err != nil {
				continue
			}
			c.check(f)
		}
	}
	// F7: decimals of every significant-digit count 1..17 (arithmetic lattice of mantissas
	// per length) x exponents -30..30
	w.Note("F7: for every digit count L = 1..17: mantissas 10^(L-1) + i*stride (up to 3000 per L, all 9*10^(L-1) for L <= 4) x decimal exponents -30..30, converted to the nearest double")
	c.name = "F7-digit-lengths"
	for L := 1; L <= 17; L++ {
		lo := uint64(1)
		for i := 1; i < L; i++ {
			lo *= 10
		}
		span := lo * 9
		n := uint64(3000)
		if span < n {
			n = span
		}
		stride := span / n
		if stride == 0 {
			stride = 1
		}
		for i := uint64(0); i < n; i++ {
			w.res.States++
			if !w.Mine() || w.Expired() {
				continue
			}
			m := lo + i*stride + (i*7919)%stride
			ms := strconv.FormatUint(m, 10)
			for e := -30; e <= 30; e++ {
				f, err := strconv.ParseFloat(ms+"e"+strconv.Itoa(e), 64)
				if err == nil {
					c.check(f)
					c.check(-f)
				}
			}
		}
	}
	// F4: powers of ten and two with neighbours; single-bit subnormals
	w.Note("F4: 10^e for e in -323..308 and 2^e for every exponent, each with 4 neighbours on both sides; every subnormal with one or two mantissa bits")
	c.name = "F4-powers"
	w.res.States++
	if w.Mine() {
		for e := -323; e <= 308; e++ {
			f, _ := strconv.ParseFloat("1e"+strconv.Itoa(e), 64)
			b := math.Float64bits(f)
			for d := int64(-4); d <= 4; d++ {
				if int64(b)+d >= 0 {
					c.check(math.Float64frombits(uint64(int64(b) + d)))
					c.check(-math.Float64frombits(uint64(int64(b) + d)))
				}
			}
		}
		for e := uint64(1); e <= 2046; e++ {
			b := e << 52
			for d := int64(-4); d <= 4; d++ {
				c.check(math.Float64frombits(uint64(int64(b) + d)))
			}
		}
		for i := uint(0); i < 52; i++ {
			c.check(math.Float64frombits(1 << i))
			for j := uint(0); j < i; j++ {
				c.check(math.Float64frombits(1<<i | 1<<j))
			}
		}
	}
	// F5: integers
	w.Note("F5: n x 10^k for n < 2^20 (stride 1 for n < 4096, then 17), k <= 18; 2^53..2^63 +- 2")
	c.name = "F5-integers"
	for n := uint64(0); n < 1<<20; n++ {
		if n >= 4096 && n%17 != 0 {
			continue
		}
		w.res.States++
		if !w.Mine() || w.Expired() {
			continue
		}
		p := 1.0
		for k := 0; k <= 18; k++ {
			c.check(float64(n) * p)
			p *= 10
		}
	}
	w.res.States++
	if w.Mine() {
		for e := uint(53); e <= 63; e++ {
			for d := -2; d <= 2; d++ {
				c.check(float64(uint64(1)<<e) + float64(d)*math.Ldexp(1, int(e)-52))
			}
		}
		// F6: format switches and zeros
		c.name = "F6-format-switch"
		for _, center := range []float64{1e-6, 1e21, 1e-7, 1e20, 1e22} {
			b := math.Float64bits(center)
			for d := int64(-16); d <= 16; d++ {
				c.check(math.Float64frombits(uint64(int64(b) + d)))
				c.check(-math.Float64frombits(uint64(int64(b) + d)))
			}
		}
		c.check(0)
		c.check(math.Copysign(0, -1))
		c.check(math.MaxFloat64)
		c.check(math.SmallestNonzeroFloat64)
	}
	w.Note("F6: +-16 ulp around 1e-6, 1e-7, 1e20, 1e21, 1e22; +-0; max; min subnormal. Non-finite values: error (checked in C10)")
	w.Sample("F2 sample: 0x7fe0000000000fff → " + func() string {
		b, _ := simdjson.VerifAppendFloat(nil, math.Float64frombits(0x7fe0000000000fff))
		return string(b)
	}())
}

func c18Replay(v *Violation) string {
	var b uint64
	for i := 0; i < 8 && i < len(v.Case); i++ {
		b |= uint64(v.Case[i]) << (8 * i)
	}
	f := math.Float64frombits(b)
	out, err := simdjson.VerifAppendFloat(nil, f)
	want, _ := json.Marshal(f)
	if err != nil || !bytes.Equal(out, want) {
		return fmt.Sprintf("FAIL 0x%016x printed %q (%v), encoding/json %q", b, out, err, want)
	}
	g, _ := strconv.ParseFloat(string(out), 64)
	if math.Float64bits(g) != b {
		return "FAIL no round trip"
	}
	if !shortestOK(out, f) {
		return "FAIL not shortest"
	}
	return "OK " + string(out)
}

func init() {
	register(&check{
		prop: "C18", name: "float-formatting", level: "model_checking",
		rule:   "Bounded lattices of float64 bit patterns, each enumerated completely (F1 float32 patterns widened; F2 doubles with 12 free leading / trailing mantissa bits x every exponent x sign; F3 nearest doubles of a decimal lattice; F4 powers of ten/two with neighbours and sparse subnormals; F5 scaled integers; F6 format-switch neighbourhoods and zeros). Each value is formatted by the real appendFloat (every 1024th also through SetFloat + Iter.MarshalJSON + StringCvt) and must be byte-identical to encoding/json, parse back to identical bits, and (every 64th) admit no shorter round-tripping decimal. The space of all 2^64 patterns is NOT enumerated; the claim is bounded-lattice. states=lattice blocks, transitions=values, traces_validated=values compared; distinct_nontrivial=distinct values (1/256 sampled into the set to bound memory, so a lower bound).",
		assume: []string{"encoding/json and strconv of the Go toolchain as reference for ES6 shortest formatting", "values outside the lattices are not covered (rare Ryu failure classes outside them are not excluded)"},
		body:   c18Body,
		replay: c18Replay,
	})
}
