package main

import (
	"bytes"
	"encoding/json"
	"errors"
	"fmt"
	"math"
	"math/big"
	"strconv"
	"strings"

	simdjson "github.com/minio/simdjson-go"

	"verif/ref"
)

// long-lived destination for Object.Parse (state from earlier objects must not show)
var c12Elements = &simdjson.Elements{Elements: make([]simdjson.Element, 0, 2), Index: map[string]int{"stale-key": 7}}
var c12ParseCalls int

var c12Keys = []string{"a", "b", "ab", "ba", "", "a/b"}
var c12Probe = []string{"a", "b", "ab", "ba", "", "a/b", "zz", "c"} // a key holding the path separator of the docs; two absent keys, one of equal length

// modelFindPath follows a key path through objects (first member wins).
// ok=false,notObj=false: ErrPathNotFound; notObj=true: runs through a non-object.
func modelFindPath(n *ref.Node, path []string) (res *ref.Node, found, notObj bool) {
	cur := n
	for i, k := range path {
		if cur.K != ref.KObj {
			return nil, false, true
		}
		var next *ref.Node
		for j, mk := range cur.Keys {
			if string(mk) == k {
				next = cur.Elems[j]
				break
			}
		}
		if next == nil {
			return nil, false, false
		}
		if i == len(path)-1 {
			return next, true, false
		}
		cur = next
	}
	return nil, false, false
}

func readElem(el *simdjson.Element) (string, error) {
	w := &walker{budget: 1 << 16}
	n, err := w.value(&el.Iter)
	if err != nil {
		return "", err
	}
	return n.Render(), nil
}

// c12Object checks every lookup/filter API on one object of a parsed document.
func c12Object(pj *simdjson.ParsedJson, docs []*ref.Node, p vpath, maxPath int) (what, fp string) {
	n := nodeAt(docs, p)
	getObj := func() (*simdjson.Object, error) {
		it, err := navigate(pj, p, 3)
		if err != nil {
			return nil, err
		}
		return it.Object(nil)
	}
	// FindKey
	for _, k := range c12Probe {
		obj, err := getObj()
		if err != nil {
			return err.Error(), "navigate"
		}
		want, found, _ := modelFindPath(n, []string{k})
		el := obj.FindKey(k, nil)
		switch {
		case !found && el != nil:
			return fmt.Sprintf("FindKey(%q) at %s returned a member, none has that key", k, p), "FindKey/phantom"
		case found && el == nil:
			return fmt.Sprintf("FindKey(%q) at %s returned nil, a member has that key", k, p), "FindKey/missed"
		case found:
			got, err := readElem(el)
			if err != nil || got != want.Render() {
				return fmt.Sprintf("FindKey(%q) at %s returned %s (%v), first member with that key is %s", k, p, clip(got), err, clip(want.Render())), "FindKey/wrong-value"
			}
			if el.Name != k || el.Type != el.Iter.Type() {
				return fmt.Sprintf("FindKey(%q) at %s: Element name/type inconsistent (%q, %v)", k, p, el.Name, el.Type), "FindKey/element"
			}
		}
	}
	// FindPath for every path up to maxPath over the probe alphabet
	var path []string
	var rec func(d int) (string, string)
	rec = func(d int) (string, string) {
		if d > 0 {
			obj, err := getObj()
			if err != nil {
				return err.Error(), "navigate"
			}
			want, found, notObj := modelFindPath(n, path)
			el, err := obj.FindPath(nil, path...)
			switch {
			case found:
				if err != nil {
					return fmt.Sprintf("FindPath(%q) at %s: %v, value exists", path, p, err), "FindPath/missed"
				}
				got, rerr := readElem(el)
				if rerr != nil || got != want.Render() {
					return fmt.Sprintf("FindPath(%q) at %s returned %s (%v), want %s", path, p, clip(got), rerr, clip(want.Render())), "FindPath/wrong-value"
				}
			case notObj:
				if err == nil || errors.Is(err, simdjson.ErrPathNotFound) {
					return fmt.Sprintf("FindPath(%q) at %s runs through a non-object: want an error other than ErrPathNotFound, got %v", path, p, err), "FindPath/non-object"
				}
			default:
				if !errors.Is(err, simdjson.ErrPathNotFound) {
					return fmt.Sprintf("FindPath(%q) at %s: key absent, want ErrPathNotFound, got %v", path, p, err), "FindPath/absent"
				}
			}
			if found && want.K != ref.KObj && d < maxPath {
				// extending through a non-object is covered by the recursion below
			}
		}
		if d == maxPath {
			return "", ""
		}
		for _, k := range c12Probe {
			path = append(path, k)
			if w, f := rec(d + 1); w != "" {
				return w, f
			}
			path = path[:len(path)-1]
		}
		return "", ""
	}
	if w, f := rec(0); w != "" {
		return w, f
	}
	// ForEach with every filter subset (unique keys only), and nil
	uniq := uniqueKeys(n)
	nsub := 1 << uint(len(c12Probe))
	for sub := 0; sub < nsub; sub++ {
		if sub != 0 && !uniq {
			break
		}
		var filter map[string]struct{}
		if sub != 0 {
			filter = map[string]struct{}{}
			for i, k := range c12Probe {
				if sub&(1<<uint(i)) != 0 {
					filter[k] = struct{}{}
				}
			}
		}
		var want []string
		for i, k := range n.Keys {
			if filter != nil {
				if _, ok := filter[string(k)]; !ok {
					continue
				}
			}
			want = append(want, strconv.Quote(string(k))+":"+n.Elems[i].Render())
		}
		obj, err := getObj()
		if err != nil {
			return err.Error(), "navigate"
		}
		var got []string
		ferr := obj.ForEach(func(key []byte, i simdjson.Iter) {
			w := &walker{budget: 1 << 16}
			v, err := w.value(&i)
			r := "<unreadable>"
			if err == nil {
				r = v.Render()
			}
			got = append(got, strconv.Quote(string(key))+":"+r)
		}, filter)
		if ferr != nil {
			return fmt.Sprintf("ForEach(filter=%v) at %s: %v", keysOf(filter), p, ferr), "ForEach/error"
		}
		if strings.Join(got, ",") != strings.Join(want, ",") {
			return fmt.Sprintf("ForEach(filter=%v) at %s called back {%s}, matching members are {%s}", keysOf(filter), p, clip(strings.Join(got, ",")), clip(strings.Join(want, ","))), "ForEach/filter"
		}
	}
	// Parse / Lookup / Map; the destination Elements is one long-lived value reused for
	// every object of every document (and nil every other time)
	obj, err := getObj()
	if err != nil {
		return err.Error(), "navigate"
	}
	c12ParseCalls++
	dstEls := c12Elements
	if c12ParseCalls%3 == 0 {
		dstEls = nil
	}
	els, err := obj.Parse(dstEls)
	if err == nil && dstEls != nil {
		c12Elements = els
	}
	if err != nil {
		return "Object.Parse: " + err.Error(), "Parse"
	}
	if len(els.Elements) != len(n.Elems) {
		return fmt.Sprintf("Object.Parse at %s returned %d elements, object has %d", p, len(els.Elements), len(n.Elems)), "Parse/count"
	}
	for i := range els.Elements {
		got, err := readElem(&els.Elements[i])
		if err != nil || got != n.Elems[i].Render() || els.Elements[i].Name != string(n.Keys[i]) {
			return fmt.Sprintf("Object.Parse at %s element %d is %q:%s, member is %q:%s", p, i, els.Elements[i].Name, clip(got), n.Keys[i], clip(n.Elems[i].Render())), "Parse/element"
		}
	}
	if uniq {
		for _, k := range c12Probe {
			want, found, _ := modelFindPath(n, []string{k})
			el := els.Lookup(k)
			if found != (el != nil) {
				return fmt.Sprintf("Elements.Lookup(%q) at %s: found=%v, member exists=%v", k, p, el != nil, found), "Lookup"
			}
			if found {
				got, err := readElem(el)
				if err != nil || got != want.Render() {
					return fmt.Sprintf("Elements.Lookup(%q) at %s returned %s, want %s", k, p, clip(got), clip(want.Render())), "Lookup/value"
				}
			}
		}
	}
	obj, _ = getObj()
	m, err := obj.Map(nil)
	if err != nil {
		return "Object.Map: " + err.Error(), "Map"
	}
	mn, err := fromInterface(m)
	if err != nil || mn.RenderLooseSorted() != n.RenderLooseSorted() {
		return fmt.Sprintf("Object.Map at %s gives %v, want %s", p, mn, clip(n.RenderLooseSorted())), "Map/value"
	}
	return "", ""
}

func keysOf(m map[string]struct{}) []string {
	if m == nil {
		return nil
	}
	var out []string
	for _, k := range c12Probe {
		if _, ok := m[k]; ok {
			out = append(out, k)
		}
	}
	return out
}

// c12FindElement checks Iter.FindElement from the root iterator.
func c12FindElement(pj *simdjson.ParsedJson, root *ref.Node, maxPath int) (what, fp string) {
	var path []string
	var rec func(d int) (string, string)
	rec = func(d int) (string, string) {
		for route := 0; d > 0 && route < 3; route++ {
			// route 0: fresh iterator (before the root); 1: iterator advanced onto the root;
			// 2: the iterator Root() hands out, standing on the root's value
			it := pj.Iter()
			if route >= 1 {
				if it.Advance() != simdjson.TypeRoot {
					return "Advance() of a fresh iterator did not land on a root", "FindElement/route"
				}
			}
			if route == 2 {
				_, r, rerr := it.Root(nil)
				if rerr != nil {
					return "Root(): " + rerr.Error(), "FindElement/route"
				}
				it = *r
			}
			el, err := it.FindElement(nil, path...)
			want, found, notObj := modelFindPath(root, path)
			if route == 2 && root.K != ref.KObj {
				// standing on a non-object value: any error but "not found" semantics are not specified
				if err == nil {
					return fmt.Sprintf("FindElement(%q) on an iterator standing on a non-object returned no error", path), "FindElement/non-object-start"
				}
				continue
			}
			switch {
			case found:
				if err != nil {
					return fmt.Sprintf("FindElement(%q): %v, value exists", path, err), "FindElement/missed"
				}
				got, rerr := readElem(el)
				if rerr != nil || got != want.Render() {
					return fmt.Sprintf("FindElement(%q) returned %s, want %s", path, clip(got), clip(want.Render())), "FindElement/wrong-value"
				}
			case notObj:
				if err == nil || errors.Is(err, simdjson.ErrPathNotFound) {
					return fmt.Sprintf("FindElement(%q) runs through a non-object: want another error, got %v", path, err), "FindElement/non-object"
				}
			default:
				if !errors.Is(err, simdjson.ErrPathNotFound) {
					return fmt.Sprintf("FindElement(%q): key absent, want ErrPathNotFound, got %v", path, err), "FindElement/absent"
				}
			}
		}
		if d == maxPath {
			return "", ""
		}
		for _, k := range c12Probe {
			path = append(path, k)
			if w, f := rec(d + 1); w != "" {
				return w, f
			}
			path = path[:len(path)-1]
		}
		return "", ""
	}
	return rec(0)
}

type c12KeptT struct {
	reuse    *simdjson.ParsedJson
	m        map[string]interface{}
	names    []string
	rendered string
	prevText []byte
}

var c12Kept = map[bool]*c12KeptT{}

func c12RenderKept(m map[string]interface{}, names []string) string {
	n, err := fromInterface(m)
	if err != nil {
		return "unrenderable: " + err.Error()
	}
	return n.RenderLooseSorted() + " names=" + strings.Join(names, "\x00")
}

func c12Doc(w *W, text []byte, maxPath int) {
	d, v := ref.Parse(text)
	if v != ref.Valid {
		w.Fatal("c12: generated invalid document %q", text)
	}
	docs := []*ref.Node{d}
	w.res.Evaluations++
	w.Distinct(hashBytes([]byte(d.Render())))
	for _, c := range strModes() {
		w.cur.Set("C12-lookup", c.String(), text)
		// one long-lived ParsedJson per string mode is reused from document to document
		k := c12Kept[c.Copy]
		if k == nil {
			k = &c12KeptT{}
			c12Kept[c.Copy] = k
		}
		pj, err, p := doParse(c, append([]byte(nil), text...), k.reuse, false)
		w.res.Validated++
		if err != nil || p != "" {
			w.Violate(Violation{Harness: "C12-lookup", Fingerprint: "C12/rejected", What: fmt.Sprint("valid document rejected: ", err, p), Case: append([]byte(nil), text...), Config: c.String()})
			k.reuse, k.m = nil, nil
			continue
		}
		k.reuse = pj
		// what Map/Parse returned for the PREVIOUS document (Go strings and maps owned by the
		// caller) must not have changed now that its ParsedJson holds another document
		if k.m != nil {
			if now := c12RenderKept(k.m, k.names); now != k.rendered {
				w.Violate(Violation{Harness: "C12-lookup", Fingerprint: "C12/kept-result-changed", What: fmt.Sprintf("the map returned by Object.Map and the names returned by Object.Parse for the previous document (%s) changed after its ParsedJson was reused for this document: now %s, was %s", clip(string(k.prevText)), clip(now), clip(k.rendered)), Case: append([]byte(nil), text...), Config: c.String()})
			}
			k.m = nil
		}
		if d.K == ref.KObj {
			if it, nerr := navigate(pj, vpath{0}, 0); nerr == nil {
				if obj, oerr := it.Object(nil); oerr == nil {
					if m, merr := obj.Map(nil); merr == nil {
						var names []string
						if obj2, o2 := it.Object(nil); o2 == nil {
							if els, perr := obj2.Parse(nil); perr == nil {
								for _, e := range els.Elements {
									names = append(names, e.Name)
								}
							}
						}
						k.m, k.names, k.rendered, k.prevText = m, names, c12RenderKept(m, names), append([]byte(nil), text...)
					}
				}
			}
		}
		bad, fp := "", ""
		func() {
			defer func() {
				if r := recover(); r != nil {
					bad, fp = fmt.Sprintf("PANIC: %v", r), "panic"
				}
			}()
			for _, cp := range containerPositions(docs) {
				if nodeAt(docs, cp).K != ref.KObj {
					continue
				}
				if bad, fp = c12Object(pj, docs, cp, maxPath); bad != "" {
					return
				}
			}
			bad, fp = c12FindElement(pj, d, maxPath)
		}()
		if bad != "" {
			w.Violate(Violation{Harness: "C12-lookup", Fingerprint: "C12/" + fp, What: bad, Case: append([]byte(nil), text...), Config: c.String()})
		}
	}
}

// ---- numeric conversions ----

type numCase struct {
	lit string
}

func c12NumLattice() []string {
	var out []string
	add := func(s ...string) { out = append(out, s...) }
	add("0", "-0", "-0.0", "0.0", "1", "-1", "0.5", "-0.5", "1.9", "-1.9", "1e0", "-1e0", "0.999999999999999", "-0.999999999999999")
	add("9007199254740991", "9007199254740992", "9007199254740993", "-9007199254740993")
	p63 := new(big.Int).Lsh(big.NewInt(1), 63)
	p64 := new(big.Int).Lsh(big.NewInt(1), 64)
	for _, c := range []*big.Int{p63, p64, new(big.Int).Neg(p63)} {
		for d := int64(-2); d <= 2; d++ {
			v := new(big.Int).Add(c, big.NewInt(d))
			add(v.String(), v.String()+".0", v.String()+".5")
		}
		// the doubles around the boundary
		f, _ := new(big.Float).SetInt(c).Float64()
		for _, g := range []float64{prevF(prevF(f)), prevF(f), f, nextF(f), nextF(nextF(f))} {
			add(strconv.FormatFloat(g, 'f', -1, 64) + ".0")
			add(strconv.FormatFloat(g, 'e', -1, 64))
		}
	}
	add("1e19", "10000000000000000000", "1e300", "-1e300", "5e-324", "-5e-324", "1.7976931348623157e308", "123456789012345678901234567890", "-123456789012345678901234567890")
	add("2147483648", "-2147483649", "4294967296", "1e18", "1e-7")
	return out
}

func nextF(f float64) float64 { return math.Nextafter(f, math.Inf(1)) }
func prevF(f float64) float64 { return math.Nextafter(f, math.Inf(-1)) }

// exactValue returns the exact rational value a parsed number node holds.
func exactValue(n *ref.Node) *big.Rat {
	switch n.K {
	case ref.KInt:
		return new(big.Rat).SetInt64(n.I)
	case ref.KUint:
		return new(big.Rat).SetInt(new(big.Int).SetUint64(n.U))
	default:
		r := new(big.Rat)
		r.SetFloat64(n.F)
		return r
	}
}

func truncRat(r *big.Rat) *big.Int {
	q := new(big.Int).Quo(r.Num(), r.Denom()) // Quo truncates toward zero
	return q
}

var (
	minI64 = big.NewInt(math.MinInt64)
	maxI64 = big.NewInt(math.MaxInt64)
	maxU64 = new(big.Int).SetUint64(math.MaxUint64)
)

// modelInt: (value, ok); modelUint: (value, ok, either) — floats in (-1,0) are either-outcome.
func modelInt(n *ref.Node) (int64, bool) {
	t := truncRat(exactValue(n))
	if t.Cmp(minI64) < 0 || t.Cmp(maxI64) > 0 {
		return 0, false
	}
	return t.Int64(), true
}

func modelUint(n *ref.Node) (v uint64, ok, either bool) {
	r := exactValue(n)
	t := truncRat(r)
	if r.Sign() < 0 && t.Sign() == 0 {
		return 0, true, true
	}
	if t.Sign() < 0 || t.Cmp(maxU64) > 0 {
		return 0, false, false
	}
	return t.Uint64(), true, false
}

func modelFloat(n *ref.Node) float64 {
	if n.K == ref.KFloat {
		return n.F
	}
	f, _ := exactValue(n).Float64()
	return f
}

func isNum(n *ref.Node) bool { return n.K == ref.KInt || n.K == ref.KUint || n.K == ref.KFloat }

func c12Numbers(w *W) {
	lat := c12NumLattice()
	w.Note(fmt.Sprintf("numeric lattice: %d literals (0, +-1, fractions, 2^53+-1, all integers and doubles within 2 of 2^63, 2^64, -2^63 as int/uint/float spellings, 10^19, 1e300, subnormal) read through Int/Uint/Float/Interface and, in every array of <= 2 lattice elements (+ non-numeric fillers), through AsInteger/AsUint64/AsFloat/AsString/AsStringCvt", len(lat)))
	cfg := Cfg{hasAVX512, true}
	fill := []string{`"s"`, "null", "true", "[]", "{}"}
	all := append(append([]string(nil), lat...), fill...)
	checkArr := func(elems []string) {
		text := []byte("[" + strings.Join(elems, ",") + "]")
		d, v := ref.Parse(text)
		if v != ref.Valid {
			return // literal not finite etc.
		}
		w.res.Evaluations++
		w.res.Transitions++
		w.cur.Set("C12-numeric", cfg.String(), text)
		pj, err, p := doParse(cfg, text, nil, false)
		w.res.Validated++
		if err != nil || p != "" {
			w.Violate(Violation{Harness: "C12-numeric", Fingerprint: "C12/num/rejected", What: fmt.Sprint("valid document rejected: ", err, p), Case: text, Config: cfg.String()})
			return
		}
		if what, fp := c12ArrayAccessors(pj, d); what != "" {
			w.Violate(Violation{Harness: "C12-numeric", Fingerprint: "C12/num/" + fp, What: what, Case: text, Config: cfg.String()})
		}
		w.Distinct(hashBytes(text))
	}
	for _, a := range all {
		w.res.States++
		if !w.Mine() {
			continue
		}
		checkArr([]string{a})
		for _, b := range all {
			checkArr([]string{a, b})
		}
	}
	w.res.States++
	if w.Mine() {
		checkArr(nil)
		checkArr(lat[:40])
	}
	// string arrays: in no-copy mode plain strings stay in the input and escaped ones go to the
	// string buffer, so one array can hold strings from both places
	strs := []string{`"a"`, `"l\nb"`, `"\u0041"`, `""`, `"` + strings.Repeat("plain-", 8) + `"`, `"é\t"`}
	w.Note(fmt.Sprintf("string arrays: every array of <= 3 elements over %d strings (plain, escaped, empty, 48 bytes, non-ASCII) in both string modes through AsString/AsStringCvt/Interface", len(strs)))
	for _, copyStrings := range []bool{true, false} {
		cfg = Cfg{hasAVX512, copyStrings}
		for _, a := range strs {
			w.res.States++
			if !w.Mine() {
				continue
			}
			checkArr([]string{a})
			for _, b := range strs {
				checkArr([]string{a, b})
				for _, c := range strs {
					checkArr([]string{a, b, c})
				}
			}
		}
	}
}

func c12ArrayAccessors(pj *simdjson.ParsedJson, d *ref.Node) (what, fp string) {
	return c12ArrayAccessorsAt(pj, vpath{0}, d)
}

// c12ArrayAccessorsAt: the array at path base (which denotes d) read element-wise and
// through the bulk accessors.
func c12ArrayAccessorsAt(pj *simdjson.ParsedJson, base vpath, d *ref.Node) (what, fp string) {
	defer func() {
		if r := recover(); r != nil {
			what, fp = fmt.Sprintf("PANIC: %v", r), "panic"
		}
	}()
	getArr := func() *simdjson.Array {
		it, err := navigate(pj, base, 0)
		if err != nil {
			panic(err)
		}
		a, err := it.Array(nil)
		if err != nil {
			panic(err)
		}
		return a
	}
	// element-wise accessors
	for i, e := range d.Elems {
		if !isNum(e) {
			continue
		}
		it, err := navigate(pj, append(append(vpath(nil), base...), i), 0)
		if err != nil {
			return err.Error(), "navigate"
		}
		lit := e.Render()
		wi, iok := modelInt(e)
		gi, ierr := it.Int()
		if iok != (ierr == nil) {
			return fmt.Sprintf("Int() of %s: err=%v, in int64 range=%v", lit, ierr, iok), "Int/range"
		}
		if iok && gi != wi {
			return fmt.Sprintf("Int() of %s = %d, want %d", lit, gi, wi), "Int/value"
		}
		wu, uok, either := modelUint(e)
		gu, uerr := it.Uint()
		if !either {
			if uok != (uerr == nil) {
				return fmt.Sprintf("Uint() of %s: err=%v (value %d), in uint64 range=%v", lit, uerr, gu, uok), "Uint/range"
			}
			if uok && gu != wu {
				return fmt.Sprintf("Uint() of %s = %d, want %d", lit, gu, wu), "Uint/value"
			}
		}
		gf, ferr := it.Float()
		if ferr != nil || math.Float64bits(gf) != math.Float64bits(modelFloat(e)) {
			return fmt.Sprintf("Float() of %s = %v (%v), want %v", lit, gf, ferr, modelFloat(e)), "Float/value"
		}
		iv, err := it.Interface()
		if err != nil {
			return fmt.Sprintf("Interface() of %s: %v", lit, err), "Interface"
		}
		in, _ := fromInterface(iv)
		if in == nil || in.RenderLoose() != e.RenderLoose() {
			return fmt.Sprintf("Interface() of %s = %v", lit, iv), "Interface/value"
		}
	}
	// one and the same Array value through every accessor in turn: what the later calls
	// return on a consumed array is unspecified, but none may panic
	func() {
		defer func() {
			if r := recover(); r != nil {
				what, fp = fmt.Sprintf("PANIC when the accessors are called one after the other on the same Array value: %v", r), "accessor-sequence"
			}
		}()
		a := getArr()
		a.AsFloat()
		a.AsString()
		a.AsInteger()
		a.AsStringCvt()
		a.AsUint64()
		a.Interface()
		a.MarshalJSON()
		a.AsStringCvt()
	}()
	if what != "" {
		return what, fp
	}
	// bulk accessors == element-wise model
	allNum := true
	for _, e := range d.Elems {
		if !isNum(e) {
			allNum = false
		}
	}
	{
		var want []int64
		ok := allNum
		for _, e := range d.Elems {
			if !isNum(e) {
				break
			}
			v, vok := modelInt(e)
			if !vok {
				ok = false
				break
			}
			want = append(want, v)
		}
		got, err := getArr().AsInteger()
		if ok != (err == nil) {
			return fmt.Sprintf("AsInteger(): err=%v, element-wise Int() succeeds for all=%v", err, ok), "AsInteger/range"
		}
		if ok && fmt.Sprint(got) != fmt.Sprint(want) && !(len(got) == 0 && len(want) == 0) {
			return fmt.Sprintf("AsInteger() = %v, want %v", got, want), "AsInteger/value"
		}
	}
	{
		var want []uint64
		ok, ambiguous := allNum, false
		for _, e := range d.Elems {
			if !isNum(e) {
				break
			}
			v, vok, either := modelUint(e)
			if either {
				ambiguous = true
			}
			if !vok {
				ok = false
				break
			}
			want = append(want, v)
		}
		got, err := getArr().AsUint64()
		if !ambiguous {
			if ok != (err == nil) {
				return fmt.Sprintf("AsUint64(): err=%v, element-wise Uint() succeeds for all=%v", err, ok), "AsUint64/range"
			}
			if ok && fmt.Sprint(got) != fmt.Sprint(want) && !(len(got) == 0 && len(want) == 0) {
				return fmt.Sprintf("AsUint64() = %v, want %v", got, want), "AsUint64/value"
			}
		}
	}
	{
		var want []uint64
		for _, e := range d.Elems {
			if isNum(e) {
				want = append(want, math.Float64bits(modelFloat(e)))
			}
		}
		got, err := getArr().AsFloat()
		if allNum != (err == nil) {
			return fmt.Sprintf("AsFloat(): err=%v, all elements numeric=%v", err, allNum), "AsFloat/range"
		}
		if allNum {
			var gb []uint64
			for _, g := range got {
				gb = append(gb, math.Float64bits(g))
			}
			if fmt.Sprint(gb) != fmt.Sprint(want) && !(len(gb) == 0 && len(want) == 0) {
				return fmt.Sprintf("AsFloat() = %v, want bits %x", got, want), "AsFloat/value"
			}
		}
	}
	{
		allStr := true
		var want []string
		for _, e := range d.Elems {
			if e.K != ref.KStr {
				allStr = false
				break
			}
			want = append(want, string(e.S))
		}
		got, err := getArr().AsString()
		if allStr != (err == nil) {
			return fmt.Sprintf("AsString(): err=%v, all strings=%v", err, allStr), "AsString"
		}
		if allStr && strings.Join(got, "\x00") != strings.Join(want, "\x00") {
			return fmt.Sprintf("AsString() = %q, want %q", got, want), "AsString/value"
		}
	}
	{
		ok := true
		var want []string
		for _, e := range d.Elems {
			switch e.K {
			case ref.KStr:
				want = append(want, string(e.S))
			case ref.KInt:
				want = append(want, strconv.FormatInt(e.I, 10))
			case ref.KUint:
				want = append(want, strconv.FormatUint(e.U, 10))
			case ref.KFloat:
				b, _ := jsonFloat(e.F)
				want = append(want, b)
			case ref.KTrue:
				want = append(want, "true")
			case ref.KFalse:
				want = append(want, "false")
			case ref.KNull:
				want = append(want, "null")
			default:
				ok = false
			}
			if !ok {
				break
			}
		}
		got, err := getArr().AsStringCvt()
		if ok != (err == nil) {
			return fmt.Sprintf("AsStringCvt(): err=%v, all scalars=%v", err, ok), "AsStringCvt"
		}
		if ok && strings.Join(got, "\x00") != strings.Join(want, "\x00") {
			return fmt.Sprintf("AsStringCvt() = %q, want %q", got, want), "AsStringCvt/value"
		}
	}
	return "", ""
}

func jsonFloat(f float64) (string, error) {
	var b bytes.Buffer
	enc := jsonEncoder(&b)
	if err := enc.Encode(f); err != nil {
		return "", err
	}
	s := b.String()
	return s[:len(s)-1], nil
}

func c12Body(w *W) {
	ds := &docSpace{leaves: smallLeaves(), deepLeaves: smallLeaves(), keys: c12Keys, maxNodes: 4}
	maxPath := 3
	if w.Thorough() {
		ds.maxNodes = 5
	}
	n := 0
	var last []byte
	ds.each(func(t *ref.Node) {
		n++
		w.res.States++
		if !w.Mine() || w.Expired() || w.TooManyViolations() {
			return
		}
		hasObj := false
		t.Walk(func(x *ref.Node) {
			if x.K == ref.KObj {
				hasObj = true
			}
		})
		if !hasObj {
			return
		}
		text := renderLayout(t, 0)
		w.res.Transitions++
		c12Doc(w, text, maxPath)
		last = text
	})
	w.Note(fmt.Sprintf("lookup space: all %d trees with <= %d nodes over keys %q (duplicates, empty, equal-length, prefix-related); on every object: FindKey for 7 probe keys, FindPath/FindElement for every path <= %d over the probes, ForEach with every one of the 128 filter subsets, Parse/Lookup/Map", n, ds.maxNodes, c12Keys, maxPath))
	w.Sample(fmt.Sprintf("lookup sample: %s", last))
	c12Numbers(w)
}

func c12Replay(v *Violation) string {
	c := parseCfg(v.Config)
	d, vd := ref.Parse(v.Case)
	if vd != ref.Valid {
		return "OK (not valid for the model)"
	}
	pj, err, p := doParse(c, v.Case, nil, false)
	if err != nil || p != "" {
		return fmt.Sprint("FAIL rejected ", err, p)
	}
	docs := []*ref.Node{d}
	if strings.HasSuffix(v.Harness, "numeric") {
		if what, _ := c12ArrayAccessors(pj, d); what != "" {
			return "FAIL " + what
		}
		return "OK"
	}
	for _, cp := range containerPositions(docs) {
		if nodeAt(docs, cp).K != ref.KObj {
			continue
		}
		if what, _ := c12Object(pj, docs, cp, 3); what != "" {
			return "FAIL " + what
		}
	}
	if what, _ := c12FindElement(pj, d, 3); what != "" {
		return "FAIL " + what
	}
	return "OK"
}

func init() {
	register(&check{
		prop: "C12", name: "lookups-and-conversions", level: "model_checking",
		rule:   "Every object of every document of a bounded space (all ordered trees up to N nodes over a key alphabet with duplicate, empty, equal-length and prefix-related keys) is queried on the real code with FindKey for every probe key, FindPath and FindElement for every path up to 3 over the probes (present, absent, through non-objects), ForEach with every filter subset, Parse/Lookup/Map; every array of <= 2 elements over an exact numeric boundary lattice (+ non-numeric fillers) through Int/Uint/Float/Interface and AsInteger/AsUint64/AsFloat/AsString/AsStringCvt. Oracles: reference-tree lookups and exact range arithmetic on math/big. states=documents/arrays generated, transitions=documents checked, traces_validated=parsed documents judged.",
		assume: []string{"floats in (-1,0) converted to uint are either-outcome", "filter subsets only on objects with unique keys (stated precondition)"},
		body:   c12Body,
		replay: c12Replay,
	})
}

func jsonEncoder(b *bytes.Buffer) *json.Encoder { return json.NewEncoder(b) }
