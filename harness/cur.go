package main

import (
	"encoding/binary"
	"os"
	"sync/atomic"
	"syscall"
)

// curFile is a small shared mapping in which a worker notes the case it is about to run,
// so the driver can name the input when the worker process dies (fault, fatal error).
type curFile struct {
	m     []byte
	ticks atomic.Uint64
}

// Ticks counts cases started (read by the watchdog).
func (c *curFile) Ticks() uint64 {
	if c == nil {
		return 0
	}
	return c.ticks.Load()
}

const curSize = 1 << 20

func openCur(path string) *curFile {
	if path == "" {
		return &curFile{}
	}
	f, err := os.OpenFile(path, os.O_RDWR|os.O_CREATE|os.O_TRUNC, 0o644)
	if err != nil {
		return &curFile{}
	}
	defer f.Close()
	if f.Truncate(curSize) != nil {
		return &curFile{}
	}
	m, err := syscall.Mmap(int(f.Fd()), 0, curSize, syscall.PROT_READ|syscall.PROT_WRITE, syscall.MAP_SHARED)
	if err != nil {
		return &curFile{}
	}
	return &curFile{m: m}
}

// Set records harness name, config and case bytes.
func (c *curFile) Set(harness, config string, data []byte) {
	if c == nil {
		return
	}
	c.ticks.Add(1)
	if c.m == nil {
		return
	}
	m := c.m
	if len(data) > curSize-512 {
		data = data[:curSize-512]
	}
	binary.LittleEndian.PutUint32(m[0:], uint32(len(harness)))
	binary.LittleEndian.PutUint32(m[4:], uint32(len(config)))
	binary.LittleEndian.PutUint32(m[8:], uint32(len(data)))
	p := 12
	p += copy(m[p:p+120], harness)
	p = 12 + 120
	p += copy(m[p:p+120], config)
	p = 12 + 240
	copy(m[p:], data)
}

type curCase struct {
	harness, config string
	data            []byte
}

func readCur(path string) curCase {
	b, err := os.ReadFile(path)
	if err != nil || len(b) < 256 {
		return curCase{}
	}
	hl := int(binary.LittleEndian.Uint32(b[0:]))
	cl := int(binary.LittleEndian.Uint32(b[4:]))
	dl := int(binary.LittleEndian.Uint32(b[8:]))
	if hl > 120 {
		hl = 120
	}
	if cl > 120 {
		cl = 120
	}
	if dl > len(b)-252 {
		dl = len(b) - 252
	}
	return curCase{harness: string(b[12 : 12+hl]), config: string(b[132 : 132+cl]), data: append([]byte(nil), b[252:252+dl]...)}
}
