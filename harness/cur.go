package main

import (
	"encoding/binary"
	"os"
	"sync/atomic"
	"syscall"
)

// curFile is a small shared mapping in which a worker notes the case it is about to run,
// so the driver can name the input when the worker process dies (fault, fatal error).
type curFile struct {
	m     []byte
	ticks atomic.Uint64
}

// Ticks counts cases started (read by the watchdog).
func (c *curFile) Ticks() uint64 {
	if c == nil {
		return 0
	}
	return c.ticks.Load()
}

const curSize = 1 << 20

func openCur(path string) *curFile {
	if path == "" {
		return &curFile{}
	}
	f, err := os.OpenFile(path, os.O_RDWR|os.O_CREATE|os.O_TRUNC, 0o644)
	if err != nil {
		return &curFile{}
	}
	defer f.Close()
	if f.Truncate(curSize) != nil {
		return &curFile{}
	}
	m, err := syscall.Mmap(int(f.Fd()), 0, curSize, syscall.PROT_READ|syscall.PROT_WRITE, syscall.MAP_SHARED)
	if err != nil {
		return &curFile{}
	}
	return &curFile{m: m}
}

// Set records harness name, config and case bytes.
func (c *curFile) Set(harness, config string, data []byte) {
	if c == nil {
		return
	}
	c.ticks.Add(1)
	if c.m == nil {
		return
	}
	m := c.m
	if len(data) > prevOff-512 {
		data = data[:prevOff-512]
	}
	binary.LittleEndian.PutUint32(m[0:], uint32(len(harness)))
	binary.LittleEndian.PutUint32(m[4:], uint32(len(config)))
	binary.LittleEndian.PutUint32(m[8:], uint32(len(data)))
	p := 12
	p += copy(m[p:p+120], harness)
	p = 12 + 120
	p += copy(m[p:p+120], config)
	p = 12 + 240
	copy(m[p:], data)
}

// prevOff: second half of the mapping holds the input the same reused parser state
// processed right before the current one (sessions that reuse one object across inputs).
const prevOff = curSize / 2

// SetPrev records the previous input of the session the next case runs in.
func (c *curFile) SetPrev(data []byte) {
	if c == nil || c.m == nil {
		return
	}
	if len(data) > curSize/2-16 {
		data = nil
	}
	binary.LittleEndian.PutUint32(c.m[prevOff:], uint32(len(data)))
	copy(c.m[prevOff+4:], data)
}

type curCase struct {
	harness, config string
	data            []byte
	prev            []byte
}

func readCur(path string) curCase {
	b, err := os.ReadFile(path)
	if err != nil || len(b) < 256 {
		return curCase{}
	}
	hl := int(binary.LittleEndian.Uint32(b[0:]))
	cl := int(binary.LittleEndian.Uint32(b[4:]))
	dl := int(binary.LittleEndian.Uint32(b[8:]))
	if hl > 120 {
		hl = 120
	}
	if cl > 120 {
		cl = 120
	}
	if dl > prevOff-252 {
		dl = prevOff - 252
	}
	cc := curCase{harness: string(b[12 : 12+hl]), config: string(b[132 : 132+cl]), data: append([]byte(nil), b[252:252+dl]...)}
	if len(b) >= curSize {
		if pl := int(binary.LittleEndian.Uint32(b[prevOff:])); pl > 0 && pl <= curSize/2-16 {
			cc.prev = append([]byte(nil), b[prevOff+4:prevOff+4+pl]...)
		}
	}
	return cc
}
