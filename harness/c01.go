package main

import (
	"bytes"
	"fmt"
	"strings"

	simdjson "github.com/minio/simdjson-go"

	"verif/ref"
)

// deterministic 64-bit hash (identical in every worker process, so distinct sets merge)
type dhash uint64

func newDhash() dhash { return 0xcbf29ce484222325 }

func (h *dhash) word(v uint64) {
	x := (uint64(*h) ^ v) * 0x9E3779B97F4A7C15
	x ^= x >> 29
	*h = dhash(x)
}

func (h *dhash) bytes(b []byte) {
	for len(b) >= 8 {
		h.word(uint64(b[0]) | uint64(b[1])<<8 | uint64(b[2])<<16 | uint64(b[3])<<24 | uint64(b[4])<<32 | uint64(b[5])<<40 | uint64(b[6])<<48 | uint64(b[7])<<56)
		b = b[8:]
	}
	var t uint64
	for i, c := range b {
		t |= uint64(c) << (8 * uint(i))
	}
	h.word(t ^ uint64(len(b))<<56)
}

func hashBytes(parts ...[]byte) uint64 {
	h := newDhash()
	for _, p := range parts {
		h.bytes(p)
		h.word(0xfefefefe)
	}
	return uint64(h)
}

func tapeHash(pj *simdjson.ParsedJson) uint64 {
	h := newDhash()
	for _, v := range pj.Tape {
		h.word(v)
	}
	if pj.Strings != nil {
		h.bytes(pj.Strings.B)
	}
	return uint64(h)
}

// parseSession keeps one reusable ParsedJson so small inputs cost ~0.4 µs instead of 35 µs.
// The reused object's internal part is re-attached after failed calls (VerifReattach), a
// state the public API cannot reach, so any mismatch seen under reuse is re-run on a fresh
// object before it counts; mismatches that vanish are counted, not reported.
type parseSession struct {
	reuse    *simdjson.ParsedJson
	internal any
	calls    int
	fresh    bool // never reuse
	// track: the case file also gets the input this session parsed right before the current
	// one, so a death that depends on what the previous call left behind can be replayed
	track *curFile
	prev  []byte
}

func (s *parseSession) parse(c Cfg, in []byte, nd bool) (*simdjson.ParsedJson, error, string) {
	if s.fresh || nd {
		return doParse(c, in, nil, nd)
	}
	s.calls++
	if s.calls&4095 == 0 {
		s.reuse, s.internal = nil, nil
	}
	if s.reuse == nil {
		// seed a reusable object
		if pj, _, _ := doParse(c, []byte("[]"), nil, false); pj != nil {
			s.reuse, s.internal = pj, simdjson.VerifInternal(pj)
		}
	}
	if s.reuse != nil {
		simdjson.VerifReattach(s.reuse, s.internal)
	}
	if s.track != nil {
		s.track.SetPrev(s.prev)
		if len(in) <= 1<<18 {
			s.prev = append(s.prev[:0], in...)
		} else {
			s.prev = s.prev[:0]
		}
	}
	pj, err, p := doParse(c, in, s.reuse, nd)
	if p != "" {
		s.reuse, s.internal = nil, nil
		return nil, nil, p
	}
	if pj != nil {
		s.reuse = pj
		s.internal = simdjson.VerifInternal(pj)
	}
	return pj, err, ""
}

// parseDefaultScribbled parses a private copy of in with NO options into the session's
// reused object (whatever mode its previous call used) and overwrites that copy before
// returning: copying strings is the documented default, so the result must not depend on
// the input any more.
func (s *parseSession) parseDefaultScribbled(avx512 bool, in []byte) (*simdjson.ParsedJson, error, string) {
	if s.reuse != nil {
		simdjson.VerifReattach(s.reuse, s.internal)
	}
	buf := append([]byte(nil), in...)
	pj, err, p := doParseDefault(avx512, buf, s.reuse, false)
	for i := range buf {
		buf[i] = '#'
	}
	if p != "" {
		s.reuse, s.internal = nil, nil
		return nil, nil, p
	}
	if pj != nil {
		s.reuse = pj
		s.internal = simdjson.VerifInternal(pj)
	}
	return pj, err, ""
}

func shapeOf(b []byte) string {
	var sb strings.Builder
	for i, c := range b {
		if i >= 28 {
			sb.WriteString("…")
			break
		}
		switch {
		case c >= '1' && c <= '9':
			sb.WriteByte('9')
		case c < 0x20 || c >= 0x7f:
			fmt.Fprintf(&sb, "\\x%02x", c)
		default:
			sb.WriteByte(c)
		}
	}
	return sb.String()
}

// c01Judge runs one input under every config and compares with the grammar model.
// probe is the part of the input that varies (for the fingerprint).
func c01Judge(w *W, s *parseSession, in, probe []byte, harness string) {
	_, verdict := ref.Parse(in)
	w.res.Evaluations++
	w.Count("verdict_"+verdict.String(), 1)
	for _, c := range allCfgs() {
		w.cur.Set(harness, c.String(), in)
		pj, err, panicked := s.parse(c, in, false)
		w.res.Validated++
		bad := ""
		switch {
		case panicked != "":
			bad = "panic: " + panicked
		case (pj == nil) == (err == nil):
			bad = fmt.Sprintf("result and error not exclusive: result=%v err=%v", pj != nil, err)
		case verdict == ref.Valid && err != nil:
			bad = "valid JSON text rejected: " + err.Error()
		case verdict == ref.Invalid && err == nil:
			bad = "invalid JSON text accepted"
		}
		if bad != "" && panicked == "" && !s.fresh {
			// attribute: does it persist on a fresh object?
			pj2, err2, p2 := doParse(c, in, nil, false)
			still := p2 != "" || (verdict == ref.Valid && err2 != nil) || (verdict == ref.Invalid && err2 == nil) || (pj2 == nil) == (err2 == nil)
			if !still {
				w.Count("reuse_artifact_discarded", 1)
				s.reuse, s.internal = nil, nil
				bad = ""
			}
		}
		if bad != "" {
			dir := "rejected-valid"
			if verdict == ref.Invalid {
				dir = "accepted-invalid"
			}
			if panicked != "" {
				dir = "panic"
			}
			w.Violate(Violation{Harness: harness, Fingerprint: "C01/" + dir + "/" + shapeOf(probe), What: bad, Case: append([]byte(nil), in...), Config: c.String()})
		}
		if err == nil && pj != nil && c.AVX512 == hasAVX512 && c.Copy {
			w.Distinct(tapeHash(pj))
		}
	}
}

var c01Bytes = []byte(`[]{},:"\01-.et `)

// token alphabet: one symbol per value kind and per rejection branch visible in the code
var c01Tokens = []string{
	"{", "}", "[", "]", ",", ":",
	`"a"`, `""`, `"\n"`, `"A"`, "0", "-0", "1", "12", "-1.5", "1e2", "1E+2", "true", "false", "null",
	" ", "\n", "\r", "\t",
	"01", "-01", "-01.5", "00", "1.", ".5", "1e", "1e+", "+1", "-",
	"tru", "nul", "fals", "truex", "nullx", "falsx", "falsex", "trux", "nulx",
	`"a`, `"\x"`, `"\u12,4"`, `"\u00g0"`, `"\`, `"\ud800"`,
	"\x00", "\x01", "\x1f", "\"\x00\"", "\"\x1f\"", "\x0b", "x",
}

var c01Core = []string{"{", "}", "[", "]", ",", ":", `"a"`, "0", "-1.5", "true", "null", " ", "\n", "01", "\x00", `"\u12,4"`}

// every bad token and every good value kind, as single probes for the boundary sweeps
func c01Probes() []string {
	var p []string
	for _, t := range c01Tokens {
		p = append(p, t)
	}
	p = append(p, strings.Repeat("7", 100), `"`+strings.Repeat("a", 100)+`"`, strings.Repeat("a", 100), "-"+strings.Repeat("1", 70)+".5e3")
	p = append(p, "{}", "[]", `{"a":0}`, "[0]", "true\x00", "null\x00x", "-01.5", "0e0", "-0.0", `"\\"`, `"\""`, `"\u0041"`, `"\ud834\udd1e"`, `"é𝄞"`, "1e400", "-1e400", "123456789012345678901234567890")
	return p
}

func wrap3(seq []byte, k int) []byte {
	switch k {
	case 0:
		return seq
	case 1:
		return append(append([]byte{'['}, seq...), ']')
	default:
		return append(append([]byte(`{"k":`), seq...), '}')
	}
}

// emitFn receives one generated input, the varying part of it and the generator's name.
type emitFn func(in, probe []byte, harness string)

// forEachC01Input runs the four C01 generators (shared with C05 and C06).
func forEachC01Input(w *W, emit emitFn) {
	c01E2(w, emit)
	c01E1(w, emit)
	c01E3(w, emit)
	c01E4(w, emit)
	c01E5(w, emit)
	c01E6(w, emit)
	c01E7(w, emit)
	c01E8(w, emit)
	c01E9(w, emit)
}

// E8: long runs without any structural character (white space between two tokens, one long
// string), around 64 KiB and its multiples: stage 1 then hands over rounds without indexes.
func c01E8(w *W, emit emitFn) {
	sizes := []int{60 << 10, 64<<10 - 64, 64<<10 - 1, 64 << 10, 64<<10 + 1, 64<<10 + 64, 100 << 10, 128<<10 - 64, 128 << 10, 128<<10 + 64, 130 << 10, 192 << 10, 200 << 10, 300 << 10}
	w.Note(fmt.Sprintf("E8: runs of %d lengths (60 KiB .. 300 KiB, around 64 KiB and 128 KiB) without a structural character: blanks between two array elements, one string value, one string key, blanks in front of the closing bracket; valid, and with a raw control character / a stray token at the end of the run", len(sizes)))
	for _, n := range sizes {
		w.res.States++
		if !w.Mine() {
			continue
		}
		blanks := bytes.Repeat([]byte(" "), n)
		letters := bytes.Repeat([]byte("abcdefgh"), n/8+1)[:n]
		for _, in := range [][]byte{
			append(append([]byte(`[1,`), blanks...), `2]`...),
			append(append([]byte(`{"k":[0],"v":"`), letters...), `","w":[true]}`...),
			append(append([]byte(`[{"`), letters...), `":1}]`...),
			append(append([]byte(`[1,2`), blanks...), `]`...),
			append(append([]byte(`[1,`), blanks...), "\x01 2]"...),
			append(append([]byte(`["`), letters...), "\x1f\"]"...),
			append(append([]byte(`[1`), blanks...), `2]`...),
		} {
			w.res.Transitions++
			emit(in, in[len(in)-8:], "C01-E8-long-runs")
		}
		if w.Expired() || w.TooManyViolations() {
			return
		}
	}
}

// E9: every byte value between two tokens at every offset of a 64-byte block (the SIMD tables
// that classify white space and structurals are per lane).
func c01E9(w *W, emit emitFn) {
	w.Note("E9: every byte value 0x00..0xff placed between two tokens at every offset 1..130 (two 64-byte blocks and a bit), in front of an array element, behind one and in front of an object value")
	var in []byte
	for b := 0; b < 256; b++ {
		w.res.States++
		if !w.Mine() {
			continue
		}
		for off := 1; off <= 130; off++ {
			for form := 0; form < 3; form++ {
				in = in[:0]
				var head, tail string
				switch form {
				case 0:
					head, tail = "[", "1]"
				case 1:
					head, tail = "[1", "]"
				default:
					head, tail = `{"a":`, "1}"
				}
				if off < len(head) {
					continue
				}
				in = append(in, head...)
				for len(in) < off {
					in = append(in, ' ')
				}
				in = append(in, byte(b))
				in = append(in, tail...)
				w.res.Transitions++
				emit(in, []byte{byte(b)}, "C01-E9-byte-at-offset")
			}
		}
		if w.Expired() || w.TooManyViolations() {
			return
		}
	}
}

// E7: long number literals. The number scanner switches routes by literal length (19/20/21
// characters, the 64-character fast window) and integers of 309 and more digits are not finite.
func c01E7(w *W, emit emitFn) {
	lengths := []int{17, 18, 19, 20, 21, 22, 23, 24, 25, 26, 40, 63, 64, 65, 100, 307, 308, 309, 310, 311, 400, 700}
	w.Note(fmt.Sprintf("E7: digit strings of %d lengths (17..26, 40, 63..65, 100, 307..311, 400, 700), with and without a minus sign, first digit 1 and 9; for lengths <= 26 every single substitution of one of - + . e E at every position, and for lengths 21 and 22 every pair of - / + substitutions; as array element and object value", len(lengths)))
	digits := func(L int, first byte) []byte {
		b := make([]byte, L)
		for i := range b {
			b[i] = byte('0' + (i*7+3)%10)
		}
		b[0] = first
		return b
	}
	out := func(lit []byte) {
		for ctx := 1; ctx <= 2; ctx++ {
			w.res.States++
			w.res.Transitions++
			emit(wrap3(append([]byte(nil), lit...), ctx), lit, "C01-E7-long-numbers")
		}
	}
	for _, L := range lengths {
		if !w.Mine() {
			continue
		}
		for _, first := range []byte{'1', '9'} {
			for _, neg := range []bool{false, true} {
				base := digits(L, first)
				if neg {
					base = append([]byte{'-'}, base...)
				}
				out(base)
				if L > 26 {
					continue
				}
				for pos := 0; pos < len(base); pos++ {
					for _, c := range []byte("-+.eE") {
						m := append([]byte(nil), base...)
						m[pos] = c
						out(m)
					}
				}
				if L == 21 || L == 22 {
					for p1 := 1; p1 < len(base); p1++ {
						for p2 := p1 + 1; p2 < len(base); p2++ {
							for _, cc := range []string{"--", "-+", "+-", "++"} {
								m := append([]byte(nil), base...)
								m[p1], m[p2] = cc[0], cc[1]
								out(m)
							}
						}
					}
				}
			}
		}
		if w.Expired() || w.TooManyViolations() {
			return
		}
	}
}

func c01Body(w *W) {
	s := &parseSession{}
	forEachC01Input(w, func(in, probe []byte, harness string) { c01Judge(w, s, in, probe, harness) })
	// fresh-object pass over the short end of the same spaces (no artificial reuse)
	c01Fresh(w)
}

// E2: every byte string up to n over the 15-byte alphabet, bare and [..]-wrapped.
func c01E2(w *W, emit emitFn) {
	n := 6
	if w.Thorough() {
		n = 7
	}
	w.Note(fmt.Sprintf("E2: all byte strings of length <= %d over %q, bare and wrapped in [ ]", n, c01Bytes))
	buf := make([]byte, 0, n+2)
	wrapped := make([]byte, 0, n+2)
	var rec func(depth int)
	rec = func(depth int) {
		w.res.States++
		emit(buf, buf, "C01-E2-bare")
		wrapped = append(append(append(wrapped[:0], '['), buf...), ']')
		emit(wrapped, buf, "C01-E2-wrapped")
		if depth == n {
			return
		}
		for _, b := range c01Bytes {
			buf = append(buf, b)
			w.res.Transitions++
			rec(depth + 1)
			buf = buf[:len(buf)-1]
		}
	}
	// shard on the first two bytes
	if w.Shard == 0 {
		w.res.States++
		emit(nil, nil, "C01-E2-bare")
		emit([]byte("[]"), nil, "C01-E2-wrapped")
		for _, b := range c01Bytes {
			buf = append(buf[:0], b)
			w.res.States++
			w.res.Transitions++
			emit(buf, buf, "C01-E2-bare")
			wrapped = append(append(append(wrapped[:0], '['), buf...), ']')
			emit(wrapped, buf, "C01-E2-wrapped")
		}
	}
	for _, b0 := range c01Bytes {
		for _, b1 := range c01Bytes {
			if !w.Mine() {
				continue
			}
			buf = append(buf[:0], b0, b1)
			w.res.Transitions++
			rec(2)
			if w.Expired() || w.TooManyViolations() {
				return
			}
		}
	}
	w.Sample(fmt.Sprintf("E2 last input of shard: %q", buf))
}

// E1: every token sequence up to k over the token alphabet, in three stage-2 contexts.
func c01E1(w *W, emit emitFn) {
	run := func(name string, toks []string, k int) {
		w.Note(fmt.Sprintf("%s: all sequences of <= %d tokens over %d tokens, bare / [..] / {\"k\":..}", name, k, len(toks)))
		var seq []byte
		var rec func(depth int)
		rec = func(depth int) {
			w.res.States++
			for ctx := 0; ctx < 3; ctx++ {
				emit(wrap3(seq, ctx), seq, name)
			}
			if depth == k {
				return
			}
			for _, t := range toks {
				l := len(seq)
				seq = append(seq, t...)
				w.res.Transitions++
				rec(depth + 1)
				seq = seq[:l]
			}
		}
		for _, t := range toks {
			if !w.Mine() {
				continue
			}
			seq = append(seq[:0], t...)
			w.res.Transitions++
			rec(1)
			if w.Expired() || w.TooManyViolations() {
				return
			}
		}
		w.Sample(fmt.Sprintf("%s sample: %q", name, wrap3(seq, 2)))
	}
	if w.Thorough() {
		run("C01-E1-tokens", c01Tokens, 4)
		run("C01-E1-core", c01Core, 6)
	} else {
		run("C01-E1-tokens", c01Tokens, 3)
		run("C01-E1-core", c01Core, 5)
	}
}

// E3: probes at every offset relative to 64-byte blocks, white-space and dense padding.
func c01E3(w *W, emit emitFn) {
	var probes [][]byte
	for _, a := range c01Tokens {
		probes = append(probes, []byte(a))
		for _, b := range c01Tokens {
			probes = append(probes, []byte(a+b))
		}
	}
	for _, p := range c01Probes() {
		probes = append(probes, []byte(p))
	}
	w.Note(fmt.Sprintf("E3: %d probes x pad 0..130 x {space, dense} x {array element, object value}", len(probes)))
	var in []byte
	for _, p := range probes {
		if !w.Mine() {
			continue
		}
		for pad := 0; pad <= 130; pad++ {
			for dense := 0; dense < 2; dense++ {
				for ctx := 0; ctx < 2; ctx++ {
					in = in[:0]
					if ctx == 0 {
						in = append(in, '[')
					} else {
						in = append(in, `{"k":[`...)
					}
					if dense == 0 {
						for i := 0; i < pad; i++ {
							in = append(in, ' ')
						}
					} else {
						for i := 0; i+1 < pad; i += 2 {
							in = append(in, '0', ',')
						}
						if pad&1 == 1 {
							in = append(in, ' ')
						}
					}
					if ctx == 0 {
						in = append(in, p...)
						in = append(in, ']')
					} else {
						in = append(in, `0],"v":`...)
						in = append(in, p...)
						in = append(in, '}')
					}
					w.res.States++
					w.res.Transitions++
					emit(in, p, "C01-E3-align")
				}
			}
		}
		if w.Expired() || w.TooManyViolations() {
			return
		}
	}
	w.Sample(fmt.Sprintf("E3 sample: %q", in))
}

// densePrefix returns "[" followed by elements so that exactly n structural indexes
// precede whatever is appended next (n >= 1).
func densePrefix(n int) []byte {
	b := []byte{'['}
	n--
	if n%2 == 1 {
		// three structurals: [ ] ,
		b = append(b, "[],"...)
		n -= 3
	}
	for ; n > 0; n -= 2 {
		b = append(b, '0', ',')
	}
	return b
}

// E4: probes around the index-buffer flush (first and second buffer) and around the
// 8 KiB sync/async threshold.
func c01E4(w *W, emit emitFn) {
	_, flushAt, _ := simdjson.VerifGeometry()
	probes := c01Probes()
	w.Note(fmt.Sprintf("E4: %d probes with their first structural on every index %d..%d and %d..%d (flush threshold read live: %d), plain / quote-at-edge / input cut right behind the probe / almost-dense prefix; and total length 8192±70", len(probes), flushAt-28, flushAt+240, 2*flushAt-26, 2*flushAt+240, flushAt))
	var in []byte
	sweep := func(lo, hi int) {
		for n := lo; n <= hi; n++ {
			if !w.Mine() {
				continue
			}
			pre := densePrefix(n)
			for _, p := range probes {
				for variant := 0; variant < 4; variant++ {
					in = append(in[:0], pre...)
					switch variant {
					case 1:
						// a string right before the probe so an opening quote sits on the edge
						in = append(in[:len(in)-2], `"q",`...)
					case 3:
						// almost dense: one string element at the front (more bytes than structurals)
						in = append([]byte(`["aaaaaaaaaaaaaaaaaaaaaaaaaaaaaaaaaaaaaaaa",`), in[1:]...)
					}
					in = append(in, p...)
					if variant != 2 {
						in = append(in, ']')
					} // variant 2: the input ends right behind the probe (a cut document)
					w.res.States++
					w.res.Transitions++
					emit(in, []byte(p), "C01-E4-flush")
				}
			}
			if w.Expired() || w.TooManyViolations() {
				return
			}
		}
	}
	sweep(flushAt-28, flushAt+240)
	sweep(2*flushAt-26, 2*flushAt+240)
	for total := 8192 - 70; total <= 8192+70; total++ {
		if !w.Mine() {
			continue
		}
		for _, p := range probes {
			in = in[:0]
			in = append(in, '[')
			for len(in)+len(p)+1 < total-1 {
				in = append(in, '0', ',')
			}
			for len(in)+len(p)+1 < total {
				in = append(in, ' ')
			}
			in = append(in, p...)
			in = append(in, ']')
			w.res.States++
			w.res.Transitions++
			emit(in, []byte(p), "C01-E4-8k")
		}
		if w.Expired() || w.TooManyViolations() {
			return
		}
	}
	w.Sample(fmt.Sprintf("E4 sample (len %d): %q…%q", len(in), in[:12], in[len(in)-24:]))
}

// E6: white space around the document in every geometry relative to a block and to the
// index-buffer flush: the document's last structural on every index around the flush
// threshold, 0..129 bytes of white space in front and 0..200 behind (incl. more than one
// whole 64-byte block of it), with and without a stray byte after the white space.
func c01E6(w *W, emit emitFn) {
	_, flushAt, _ := simdjson.VerifGeometry()
	leads := []int{0, 1, 17, 63, 64, 65, 129}
	trails := []int{0, 1, 31, 63, 64, 65, 100, 127, 128, 129, 200}
	w.Note(fmt.Sprintf("E6: dense documents whose closing bracket is structural number %d..%d and %d..%d, x %d amounts of leading and %d amounts of trailing white space (0..200 bytes, mixed space/LF/tab/CR), valid and with one stray byte behind the white space", flushAt-40, flushAt+40, 2*flushAt-40, 2*flushAt+40, len(leads), len(trails)))
	ws := func(n int) []byte {
		b := make([]byte, n)
		for i := range b {
			b[i] = " \n\t\r"[(i*7+n)%4]
		}
		return b
	}
	var in []byte
	for _, base := range []int{flushAt, 2 * flushAt} {
		for n := base - 40; n <= base+40; n++ {
			if !w.Mine() {
				continue
			}
			body := append(densePrefix(n-1), '0', ']')
			for _, l := range leads {
				for _, t := range trails {
					for stray := 0; stray < 2; stray++ {
						in = append(in[:0], ws(l)...)
						in = append(in, body...)
						in = append(in, ws(t)...)
						if stray == 1 {
							in = append(in, ',')
						}
						w.res.States++
						w.res.Transitions++
						emit(in, nil, "C01-E6-edge-whitespace")
					}
				}
			}
			if w.Expired() || w.TooManyViolations() {
				return
			}
		}
	}
}

// E5: every token sequence <= 2 over the core alphabet at the start, in the middle and at
// the end of a document just above the 8 KiB threshold (concurrent two-stage path), so each
// kind of error - and each way of leaving a scope open while still ending in ] or } - is
// decided there too.
func c01E5(w *W, emit emitFn) {
	w.Note("E5: every sequence of <= 2 tokens over the 16-token core (and every single token of the full alphabet) spliced in at the start, middle and end of a dense document of ~8300 bytes, array and object flavour")
	var seqs [][]byte
	for _, a := range c01Tokens {
		seqs = append(seqs, []byte(a))
	}
	for _, a := range c01Core {
		for _, b := range c01Core {
			seqs = append(seqs, []byte(a+b))
		}
	}
	half := bytes.Repeat([]byte("17,"), 1380)
	var in []byte
	for _, q := range seqs {
		w.res.States++
		if !w.Mine() || w.Expired() || w.TooManyViolations() {
			continue
		}
		for pos := 0; pos < 3; pos++ {
			for flavour := 0; flavour < 2; flavour++ {
				in = in[:0]
				if flavour == 0 {
					in = append(in, '[')
				} else {
					in = append(in, `{"k":[`...)
				}
				if pos == 0 {
					in = append(in, q...)
					in = append(in, ',')
				}
				in = append(in, half...)
				if pos == 1 {
					in = append(in, q...)
					in = append(in, ',')
				}
				in = append(in, half...)
				if pos == 2 {
					in = append(in, q...)
				} else {
					in = append(in, '0')
				}
				if flavour == 0 {
					in = append(in, ']')
				} else {
					in = append(in, `],"z":0}`...)
				}
				w.res.Transitions++
				emit(in, q, "C01-E5-large")
			}
		}
	}
}

func c01Fresh(w *W) {
	s := &parseSession{fresh: true}
	n := 4
	if w.Thorough() {
		n = 5
	}
	w.Note(fmt.Sprintf("fresh-object pass: all byte strings <= %d and all token sequences <= 2 with no reuse at all", n))
	buf := make([]byte, 0, 8)
	var rec func(depth int)
	rec = func(depth int) {
		c01Judge(w, s, append(append([]byte{'['}, buf...), ']'), buf, "C01-fresh-bytes")
		w.res.States++
		if depth == n {
			return
		}
		for _, b := range c01Bytes {
			buf = append(buf, b)
			w.res.Transitions++
			rec(depth + 1)
			buf = buf[:len(buf)-1]
		}
	}
	for _, b0 := range c01Bytes {
		if !w.Mine() {
			continue
		}
		buf = append(buf[:0], b0)
		rec(1)
	}
	for _, a := range c01Tokens {
		for _, b := range c01Tokens {
			if !w.Mine() {
				continue
			}
			for ctx := 0; ctx < 3; ctx++ {
				w.res.States++
				w.res.Transitions++
				c01Judge(w, s, wrap3([]byte(a+b), ctx), []byte(a+b), "C01-fresh-tokens")
			}
		}
	}
}

func c01Replay(v *Violation) string {
	c := parseCfg(v.Config)
	_, verdict := ref.Parse(v.Case)
	pj, err, p := doParse(c, v.Case, nil, false)
	switch {
	case p != "":
		return "FAIL panic: " + p
	case (pj == nil) == (err == nil):
		return "FAIL result/error not exclusive"
	case verdict == ref.Valid && err != nil:
		return "FAIL model says valid, Parse returned: " + err.Error()
	case verdict == ref.Invalid && err == nil:
		return "FAIL model says invalid, Parse accepted it"
	}
	return fmt.Sprintf("OK model=%v err=%v", verdict, err)
}

func init() {
	register(&check{
		prop: "C01", name: "grammar-conformance", level: "model_checking",
		rule: "Every node of the input tries (byte strings over a 15-byte alphabet; token sequences over a token alphabet with one token per value kind and per rejection branch; probes x alignment 0..130; probes x index-buffer flush edge x 8 KiB threshold) is handed to the real Parse under every kernel/string-mode config and compared with the RFC 8259 grammar model's verdict. states=trie nodes, transitions=appends, evaluations=inputs, traces_validated=Parse calls compared; distinct_nontrivial=distinct accepted tapes (inputs that went all the way through stage 2).",
		assume: []string{"reference grammar model (ref/refjson.go) is correct; it is cross-checked against encoding/json in setup self-test",
			"inputs away from the enumerated alphabets/carriers are not covered",
			"throughput trick: the reused object's internal state is re-attached after failures; mismatches are re-decided on a fresh object"},
		body:   c01Body,
		replay: c01Replay,
	})
}
