package main

import (
	"fmt"
	"strings"

	simdjson "github.com/minio/simdjson-go"

	"verif/ref"
)

func tapeErr(pj *simdjson.ParsedJson, o ref.TapeOpts) error {
	ns := 0
	if pj.Strings != nil {
		ns = len(pj.Strings.B)
	}
	return ref.CheckTape(pj.Tape, ns, len(pj.Message), o)
}

var c17Sess = &parseSession{}

func c17Body(w *W) {
	check := func(harness string, text []byte, nd bool) {
		w.res.Evaluations++
		forEachCfgParse(w, harness, text, nd, func(c Cfg, pj *simdjson.ParsedJson) (string, string) {
			w.Distinct(tapeHash(pj))
			if err := tapeErr(pj, ref.TapeOpts{}); err != nil {
				return "tape violates the documented format: " + err.Error(), "format/parse"
			}
			if c.Copy {
				// with copying every string must live in the string buffer
				for i := 0; i < len(pj.Tape); i++ {
					switch byte(pj.Tape[i] >> 56) {
					case '"':
						if pj.Tape[i]&simdjson.STRINGBUFBIT == 0 {
							return fmt.Sprintf("entry %d: string not in the string buffer although copying is on", i), "format/copybit"
						}
						i++
					case 'l', 'u', 'd':
						i++
					}
				}
			}
			return "", ""
		})
		if nd {
			return
		}
		// the same document once more WITHOUT options into an object last used in no-copy mode:
		// copying is the default, so every string entry must carry the string-buffer flag
		if _, err, p := c17Sess.parse(Cfg{hasAVX512, false}, text, false); err != nil || p != "" {
			return
		}
		pj, err, p := c17Sess.parseDefaultScribbled(hasAVX512, text)
		w.res.Validated++
		if err != nil || p != "" || pj == nil {
			return
		}
		for i := 0; i < len(pj.Tape); i++ {
			switch byte(pj.Tape[i] >> 56) {
			case '"':
				if pj.Tape[i]&simdjson.STRINGBUFBIT == 0 {
					w.Violate(Violation{Harness: harness, Fingerprint: "C17/format/copybit-after-nocopy", What: fmt.Sprintf("parsed without options into an object last used in no-copy mode: entry %d is a string that is not in the string buffer", i), Case: append([]byte(nil), text...), Config: "default-options-after-nocopy"})
					return
				}
				i++
			case 'l', 'u', 'd':
				i++
			}
		}
	}
	forEachStdDoc(w, func(name string, text []byte) { check("C17-"+name, text, false) })
	forEachNDInput(w, func(name string, text []byte) {
		if _, v := ref.ParseND(text); v != ref.Valid {
			return
		}
		check("C17-nd-"+name, text, true)
	})
	c17Deserialized(w)
	// every input of the C01 spaces (byte strings, token sequences, alignment / flush-edge /
	// threshold probes, edge white space) that the parser ACCEPTS - whether or not the grammar
	// allows it - must come with a well-formed tape: a text with an unclosed container that
	// slips through must not leave zero offsets or a missing closing root behind
	w.Note("accepted inputs of the C01 spaces (incl. texts the grammar rejects, should the parser accept one): tape format checked under one configuration per input")
	sess := &parseSession{}
	cfg := Cfg{hasAVX512, true}
	forEachC01Input(w, func(in, probe []byte, harness string) {
		w.cur.Set("C17-"+harness, cfg.String(), in)
		pj, err, p := sess.parse(cfg, in, false)
		w.res.Validated++
		if p != "" || err != nil || pj == nil {
			return
		}
		w.res.Evaluations++
		if terr := tapeErr(pj, ref.TapeOpts{}); terr != nil {
			w.Violate(Violation{Harness: "C17-" + harness, Fingerprint: "C17/format/accepted-input/" + shapeOf(probe), What: "accepted input whose tape violates the documented format: " + terr.Error(), Case: append([]byte(nil), in...), Config: cfg.String()})
		}
	})
}

func c17Replay(v *Violation) string {
	c := parseCfg(v.Config)
	nd := len(v.Harness) > 6 && v.Harness[:6] == "C17-nd"
	pj, err, p := doParse(c, v.Case, nil, nd)
	if p != "" || err != nil {
		return fmt.Sprintf("FAIL parse: %v %v", err, p)
	}
	if err := tapeErr(pj, ref.TapeOpts{}); err != nil {
		return "FAIL " + err.Error()
	}
	return "OK"
}

func init() {
	register(&check{
		prop: "C17", name: "tape-format", level: "model_checking",
		rule:   "Every tape produced by the real Parse/ParseND for the whole bounded document space of C02 (trees x layouts, depth ladder, flush-edge ladders) and the accepted inputs of C08's line-sequence space, under all configs, and every tape obtained by Deserialize(Serialize(.)) of parsed, edited and deleted-from tapes in all four modes, is checked against the documented tape-format rules (root pairs, matching start/end offsets, nesting, key/value alternation, in-range strings, number payload words, NOP skips landing exactly on the next live entry). states=documents, transitions=texts/tapes checked, traces_validated=tapes validated; distinct_nontrivial=distinct tapes.",
		assume: []string{"tape-format rules as written in ref/reftape.go from README.md"},
		body:   c17Body,
		replay: c17Replay,
	})
}

// c17Deserialized: every tape obtained by deserializing a serialized parsed / edited /
// deleted-from tape, in all four modes, must obey the format with strict NOP runs.
func c17Deserialized(w *W) {
	hp := c14Params(w)
	hp.prop = "C17"
	hp.maxDepth = 1
	if w.Thorough() {
		hp.maxDepth = 2
	}
	n := 0
	hp.check = func(pj *simdjson.ParsedJson, docs []*ref.Node) (string, string) {
		// the edited tape itself: every NOP of a gap jumps over NOPs only (a reader that is
		// standing inside the gap must not jump over a live entry)
		if err := tapeErr(pj, ref.TapeOpts{AllowNop: true, NopNoOvershoot: true}); err != nil {
			return "edited tape violates the format: " + err.Error(), "edited-format"
		}
		for m := 0; m < 4; m++ {
			n++
			rt, what := roundTrip(pj, simdjson.CompressMode(m), simdjson.CompressMode((m+n)%4))
			if what != "" {
				return what, "serialize round trip"
			}
			if err := tapeErr(rt, ref.TapeOpts{AllowNop: true, StrictNop: true}); err != nil {
				return "deserialized tape violates the format: " + err.Error(), "deserialized-format/" + modeNames[m]
			}
		}
		return "", ""
	}
	w.Note(fmt.Sprintf("deserialized tapes: every state of the delete/replace history graph to depth %d, serialized in each of the 4 modes and deserialized", hp.maxDepth))
	exploreHistories(w, hp)

	// one long-lived Serializer and one long-lived destination: every ordered triple of
	// small tapes (incl. tapes whose strings collide in the dedup table), every mode
	ts := c11Tapes(w)
	var small []*serTape
	for _, t := range ts {
		if !t.big && !t.corrupt && !t.aux {
			small = append(small, t)
		}
	}
	w.Note(fmt.Sprintf("reused Serializer and destination: for every ordered triple (a,b,c) of %d small tapes and every mode: Serialize(a); Serialize(b); Deserialize(blob b); Serialize(c); Deserialize(blob c) on ONE Serializer into ONE destination that is never reset; both results must obey the tape format", len(small)))
	ser := simdjson.NewSerializer()
	var dst *simdjson.ParsedJson
	for m := 0; m < 4; m++ {
		for ai, a := range small {
			for bi, b := range small {
				for ci, c := range small {
					w.res.States++
					if !w.Mine() || w.Expired() || w.TooManyViolations() {
						continue
					}
					ser.CompressMode(simdjson.CompressMode(m))
					name := fmt.Sprintf("mode %s: Serialize(%s); Serialize(%s); Deserialize; Serialize(%s); Deserialize", modeNames[m], a.name, b.name, c.name)
					w.cur.Set("C17-reused-serializer", modeNames[m], []byte(fmt.Sprint(ai, bi, ci)))
					serialize(ser, a.pj)
					for _, t := range []*serTape{b, c} {
						blob, p := serialize(ser, t.pj)
						w.res.Transitions++
						w.res.Evaluations++
						w.res.Validated++
						bad := ""
						if p != "" {
							bad = "Serialize panicked: " + p
						} else {
							out, err, p2 := deserialize(ser, append([]byte(nil), blob...), dst)
							switch {
							case p2 != "":
								bad = "Deserialize panicked: " + p2
							case err != nil:
								bad = "Deserialize of a freshly serialized tape failed: " + err.Error()
							default:
								dst = out
								if terr := tapeErr(out, ref.TapeOpts{AllowNop: true, StrictNop: true}); terr != nil {
									bad = "deserialized tape violates the format: " + terr.Error()
								}
							}
						}
						if bad != "" {
							w.Violate(Violation{Harness: "C17-reused-serializer", Fingerprint: "C17/reused-serializer", What: name + ": " + bad, Case: []byte(name), CaseText: name, Config: modeNames[m]})
							ser, dst = simdjson.NewSerializer(), nil
							break
						}
					}
				}
			}
		}
	}
	// long gaps: one contiguous NOP run of every length class (a few entries, around 256,
	// hundreds, tens of thousands) must come back with every entry counting down to the next
	// live entry
	w.Note("long gaps: arrays of k numbers deleted as one element for k in {1..6, 60..70, 120..135, 250..262, 1000, 40000} (gap = 2k+2 entries) and the big deleted-from tapes of C11, round-tripped in all 4 modes: strict NOP countdown")
	var ks []int
	for k := 1; k <= 6; k++ {
		ks = append(ks, k)
	}
	for k := 60; k <= 70; k++ {
		ks = append(ks, k)
	}
	for k := 120; k <= 135; k++ {
		ks = append(ks, k)
	}
	for k := 250; k <= 262; k++ {
		ks = append(ks, k)
	}
	ks = append(ks, 1000, 40000)
	gapTape := func(name string, pj *simdjson.ParsedJson) {
		for m := 0; m < 4; m++ {
			w.res.Transitions++
			w.res.Evaluations++
			w.res.Validated++
			rt, what := roundTrip(pj, simdjson.CompressMode(m), simdjson.CompressMode((m+2)%4))
			if what == "" {
				if terr := tapeErr(rt, ref.TapeOpts{AllowNop: true, StrictNop: true}); terr != nil {
					what = "deserialized tape violates the format: " + terr.Error()
				}
			}
			if what != "" {
				w.Violate(Violation{Harness: "C17-long-gap", Fingerprint: "C17/long-gap", What: name + ": " + what, Case: []byte(name), CaseText: name, Config: modeNames[m]})
				return
			}
		}
	}
	for _, k := range ks {
		w.res.States++
		if !w.Mine() || w.Expired() {
			continue
		}
		var sb strings.Builder
		sb.WriteString("[[")
		for i := 0; i < k-1; i++ {
			fmt.Fprintf(&sb, "%d,", i)
		}
		sb.WriteString(`0],"after the gap",{"k":[1,2]},3]`)
		pj, docs := mustParse(w, sb.String(), false, Cfg{hasAVX512, true})
		applyOps(w, pj, docs, []editOp{{kind: opArrDelete, p: vpath{0}, route: 0, subset: 0b1}})
		gapTape(fmt.Sprintf("array of %d numbers deleted as one element", k), pj)
	}
	for _, t := range ts {
		if t.big && (strings.Contains(t.name, "gap") || strings.Contains(t.name, "deleted")) {
			w.res.States++
			if w.Mine() {
				gapTape(t.name, t.pj)
			}
		}
	}
}
