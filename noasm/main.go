// Command noasmread is built with -tags noasm: it deserializes every blob the asm build
// produced and checks that it denotes the same document (C11, "asm and noasm builds").
package main

import (
	"encoding/binary"
	"fmt"
	"io"
	"os"

	simdjson "github.com/minio/simdjson-go"
)

func readRec(f io.Reader) ([]byte, error) {
	var l [8]byte
	if _, err := io.ReadFull(f, l[:]); err != nil {
		return nil, err
	}
	b := make([]byte, binary.LittleEndian.Uint64(l[:]))
	_, err := io.ReadFull(f, b)
	return b, err
}

func main() {
	if simdjson.SupportedCPU() {
		fmt.Println("HARNESS-ERROR noasm reader was built with assembly support")
		os.Exit(3)
	}
	f, err := os.Open(os.Args[1])
	if err != nil {
		fmt.Println("HARNESS-ERROR", err)
		os.Exit(3)
	}
	defer f.Close()
	n, bad := 0, 0
	s := simdjson.NewSerializer()
	var dst *simdjson.ParsedJson
	for {
		name, err := readRec(f)
		if err != nil {
			break
		}
		blob, _ := readRec(f)
		exact, _ := readRec(f)
		n++
		func() {
			defer func() {
				if r := recover(); r != nil {
					bad++
					fmt.Printf("NOASM-MISMATCH %s: panic %v\n", name, r)
				}
			}()
			out, err := s.Deserialize(blob, dst)
			if err != nil {
				bad++
				fmt.Printf("NOASM-MISMATCH %s: %v\n", name, err)
				return
			}
			dst = out
			docs, err := walkFlat(out)
			if err != nil {
				bad++
				fmt.Printf("NOASM-MISMATCH %s: %v\n", name, err)
				return
			}
			if got := renderDocs(docs, renderExact); got != string(exact) {
				bad++
				fmt.Printf("NOASM-MISMATCH %s: denotes %.200s want %.200s\n", name, got, exact)
			}
		}()
	}
	fmt.Printf("noasm reader: %d blobs, %d mismatches\n", n, bad)
	if bad > 0 {
		os.Exit(1)
	}
	if n == 0 {
		os.Exit(3)
	}
}
