// Package vsync mirrors the API of package sync on top of the controlled scheduler.
package vsync

import (
	"verif/vsched"
)

type WaitGroup struct{ m vsched.WaitGroupModel }

func (w *WaitGroup) Add(d int) { w.m.Add(d) }
func (w *WaitGroup) Done()     { w.m.Done() }
func (w *WaitGroup) Wait()     { w.m.Wait() }

type Mutex struct{ m vsched.MutexModel }

func (m *Mutex) Lock()         { m.m.Lock() }
func (m *Mutex) Unlock()       { m.m.Unlock() }
func (m *Mutex) TryLock() bool { return m.m.TryLock() }

type RWMutex struct{ m vsched.MutexModel }

func (m *RWMutex) Lock()    { m.m.Lock() }
func (m *RWMutex) Unlock()  { m.m.Unlock() }
func (m *RWMutex) RLock()   { m.m.RLock() }
func (m *RWMutex) RUnlock() { m.m.RUnlock() }

type Locker interface {
	Lock()
	Unlock()
}

type Once struct{ m vsched.OnceModel }

func (o *Once) Do(f func()) { o.m.Do(f) }

type Pool struct {
	New func() any
	m   vsched.PoolModel
}

func (p *Pool) Get() any {
	p.m.New = p.New
	return p.m.Get()
}

func (p *Pool) Put(v any) {
	p.m.New = p.New
	p.m.Put(v)
}
