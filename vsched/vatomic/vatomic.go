// Package vatomic mirrors sync/atomic: a scheduling point, then the plain operation (only
// one managed thread runs at a time).
package vatomic

import "verif/vsched"

func AddUint64(p *uint64, d uint64) uint64 { vsched.AtomicPoint(); *p += d; return *p }
func AddInt64(p *int64, d int64) int64     { vsched.AtomicPoint(); *p += d; return *p }
func AddUint32(p *uint32, d uint32) uint32 { vsched.AtomicPoint(); *p += d; return *p }
func AddInt32(p *int32, d int32) int32     { vsched.AtomicPoint(); *p += d; return *p }
func LoadUint64(p *uint64) uint64          { vsched.AtomicPoint(); return *p }
func LoadInt64(p *int64) int64             { vsched.AtomicPoint(); return *p }
func LoadUint32(p *uint32) uint32          { vsched.AtomicPoint(); return *p }
func LoadInt32(p *int32) int32             { vsched.AtomicPoint(); return *p }
func StoreUint64(p *uint64, v uint64)      { vsched.AtomicPoint(); *p = v }
func StoreInt64(p *int64, v int64)         { vsched.AtomicPoint(); *p = v }
func StoreUint32(p *uint32, v uint32)      { vsched.AtomicPoint(); *p = v }
func StoreInt32(p *int32, v int32)         { vsched.AtomicPoint(); *p = v }

func CompareAndSwapUint64(p *uint64, o, n uint64) bool {
	vsched.AtomicPoint()
	if *p == o {
		*p = n
		return true
	}
	return false
}

func CompareAndSwapInt32(p *int32, o, n int32) bool {
	vsched.AtomicPoint()
	if *p == o {
		*p = n
		return true
	}
	return false
}

func CompareAndSwapInt64(p *int64, o, n int64) bool {
	vsched.AtomicPoint()
	if *p == o {
		*p = n
		return true
	}
	return false
}

func CompareAndSwapUint32(p *uint32, o, n uint32) bool {
	vsched.AtomicPoint()
	if *p == o {
		*p = n
		return true
	}
	return false
}

type Uint64 struct{ v uint64 }

func (x *Uint64) Load() uint64        { vsched.AtomicPoint(); return x.v }
func (x *Uint64) Store(v uint64)      { vsched.AtomicPoint(); x.v = v }
func (x *Uint64) Add(d uint64) uint64 { vsched.AtomicPoint(); x.v += d; return x.v }

type Int64 struct{ v int64 }

func (x *Int64) Load() int64       { vsched.AtomicPoint(); return x.v }
func (x *Int64) Store(v int64)     { vsched.AtomicPoint(); x.v = v }
func (x *Int64) Add(d int64) int64 { vsched.AtomicPoint(); x.v += d; return x.v }

type Int32 struct{ v int32 }

func (x *Int32) Load() int32       { vsched.AtomicPoint(); return x.v }
func (x *Int32) Store(v int32)     { vsched.AtomicPoint(); x.v = v }
func (x *Int32) Add(d int32) int32 { vsched.AtomicPoint(); x.v += d; return x.v }

type Bool struct{ v bool }

func (x *Bool) Load() bool   { vsched.AtomicPoint(); return x.v }
func (x *Bool) Store(v bool) { vsched.AtomicPoint(); x.v = v }
