package vsched

// Typed wrappers the instrumenter emits. Outside a controlled execution they fall back to
// the real channel operation.

func Send[C ~chan T | ~chan<- T, T any](ch C, v T) {
	if !SendAny(ch, v) {
		(chan<- T)(ch) <- v
	}
}

func zero[T any](v any) T {
	if v == nil {
		var z T
		return z
	}
	return v.(T)
}

func Recv[C ~chan T | ~<-chan T, T any](ch C) T {
	v, _, m := RecvAny(ch)
	if !m {
		return <-(<-chan T)(ch)
	}
	return zero[T](v)
}

func Recv2[C ~chan T | ~<-chan T, T any](ch C) (T, bool) {
	v, ok, m := RecvAny(ch)
	if !m {
		x, ok := <-(<-chan T)(ch)
		return x, ok
	}
	return zero[T](v), ok
}

func Close[C ~chan T | ~chan<- T, T any](ch C) {
	if !CloseAny(ch) {
		close((chan<- T)(ch))
	}
}

// RCase / SCase are typed select cases.
type RCase[T any] struct {
	sc *SelCase
	V  T
	OK bool
}

func (r *RCase[T]) Case() *SelCase { return r.sc }
func (r *RCase[T]) Done() {
	r.V, r.OK = zero[T](r.sc.RecvVal), r.sc.RecvOK
}

type AnyCase interface {
	Case() *SelCase
	Done()
}

type SCaseT struct{ sc *SelCase }

func (s *SCaseT) Case() *SelCase { return s.sc }
func (s *SCaseT) Done()          {}

func RecvCase[C ~chan T | ~<-chan T, T any](ch C) *RCase[T] {
	return &RCase[T]{sc: &SelCase{C: ch}}
}

func SendCase[C ~chan T | ~chan<- T, T any](ch C, v T) *SCaseT {
	return &SCaseT{sc: &SelCase{C: ch, Send: true, Val: v}}
}

// Select runs a rewritten select statement; returns the chosen case index, -1 for default.
func Select(hasDefault bool, cases ...AnyCase) int {
	sc := make([]*SelCase, len(cases))
	for i, c := range cases {
		sc[i] = c.Case()
	}
	i, managed := SelectAny(hasDefault, sc)
	if !managed {
		panic("vsched: select outside a controlled execution is not supported")
	}
	if i >= 0 {
		cases[i].Done()
	}
	return i
}
