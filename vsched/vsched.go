// Package vsched is a controlled cooperative scheduler: the package under test is rewritten
// (cmd/vinstr) so that every go statement, channel operation, select, sync and atomic
// operation goes through this package. Exactly one managed thread runs at a time; at every
// scheduling point the explorer chooses which enabled thread continues. Channel contents,
// wait-group counters, mutex owners and pool contents live in the model, so a managed
// thread never blocks inside the Go runtime and the enabled set is exact.
package vsched

import (
	"fmt"
	"reflect"
	"runtime"
	"sort"
	"strings"
	"sync"
)

// Chooser answers every non-deterministic decision of one execution.
// n >= 2 alternatives; preempt reports whether alternative 0 is "keep running the current
// thread" (so any other answer is a preemption). kind is "sched", "select" or "pool".
type Chooser interface {
	Choose(n int, preempt bool, kind string) int
}

type opKind int

const (
	opNone opKind = iota
	opSend
	opRecv
	opSelect
	opWait
	opLock
	opRLock
	opOnce
	opPlain // always enabled (atomic, Done, Close, spawn, pool, exit-less points)
)

type selCase struct {
	ch   *chanModel
	send bool
	val  any
}

type thread struct {
	id      int
	family  int
	private bool   // the pending operation touches only objects private to this family
	cid     uint64 // canonical identity: derived from the spawn path, not from timing
	nspawn  uint64
	nchan   uint64
	nobj    uint64
	pos     uint64
	wake    chan struct{}
	op      opKind
	ch      *chanModel
	val     any
	cases   []selCase
	hasDef  bool
	wg      *WaitGroupModel
	mu      *MutexModel
	once    *OnceModel
	done    bool
	handed  bool // a rendezvous partner completed this thread's pending op
	recvVal any
	recvOK  bool
	selIdx  int
	events  uint64 // per-thread operation counter (state keys)
	obsHash uint64 // hash of values observed by this thread
}

type chanModel struct {
	fam    owner
	owner  *thread // the only thread that has touched the channel so far (nil: shared)
	shared bool
	ref    any // pins the real channel so its address cannot be reused within the execution
	id     int
	cid    uint64 // canonical identity: creator thread + its creation counter
	cap    int
	buf    []any
	closed bool
}

// Event is one entry of the hand-off log.
type Event struct {
	Thread int
	What   string
	Chan   int
}

// Result of one execution.
type Result struct {
	Deadlock  bool
	Livelock  bool
	Pruned    string
	Blocked   []string // at a deadlock: what every unfinished thread waits for
	Panic     any
	PanicThr  int
	Steps     int
	Threads   int
	Log       []Event
	MaxQueued map[int]int // per channel id: maximum buffered entries seen
}

type Sched struct {
	chooser  Chooser
	threads  []*thread
	cur      *thread
	chans    map[uintptr]*chanModel
	nchan    int
	aborted  bool
	res      Result
	maxSteps int
	done     chan struct{}
	logOn    bool
	gomax    int
	pools    []*PoolModel
	onPoint  func(s *Sched) // optional hook called at every scheduling point (state keys)
	digest   func(v any) uint64
	epoch    uint64
	npool    uint64
	localOpt bool
	prefill  int
	families bool
	steer    func(enabled []int) int
	objIDs   map[uintptr]uint64 // canonical identity of pooled objects (state keys)
	objPins  []any
}

var (
	active   *Sched
	activeMu sync.Mutex
	epoch    uint64
)

// DebugEnabled makes pick describe the enabled set in LastEnabled (divergence diagnosis).
var (
	DebugEnabled bool
	LastEnabled  string
)

type abortSentinel struct{}

// Abort may be panicked by a Chooser to end the current execution early (state pruning).
type Abort struct{ Reason string }

// Options for Run.
type Options struct {
	MaxSteps   int
	Log        bool
	GOMAXPROCS int
	OnPoint    func(s *Sched)
	// Digest maps a value passing through a channel (or a pool answer) to a number that
	// identifies it for state keys; nil = values do not enter the key.
	Digest func(v any) uint64
	// LocalOpt: no scheduling point before an operation on a channel that only the current
	// thread has touched so far, nor before atomic operations (coarser atomic steps; every
	// order of operations that two threads can both observe stays reachable).
	LocalOpt bool
	// PoolPrefill >= 0: every pool starts the execution holding exactly that many objects
	// (kept from the previous execution or made with New), so "recycled" answers are
	// available from the first Get on and executions start from the same pool state.
	PoolPrefill int
	// ColdOnces: every sync.Once of the instrumented package that has run is reset before
	// the execution starts, so process-wide lazy initialisation happens again (cold start).
	ColdOnces bool
	// Families: the threads started by the main thread and all their descendants form one
	// family each. Operations on objects only one family has touched are not scheduling
	// points, scheduling inside a family is deterministic (lowest id first), and the
	// explorer chooses between FAMILIES at operations on shared objects, at blocking and
	// at thread exit. Every order of shared operations across families stays reachable.
	Families bool
	// Steer, if set, makes every scheduling decision instead of the Chooser (also when only
	// one thread is enabled): it gets the ids of the enabled threads in canonical order and
	// returns the index of the one to run. Used to replay paths of a protocol model.
	Steer func(enabled []int) int
}

// Run executes body as managed thread 0 under the chooser and returns when every managed
// thread has finished (or the execution was aborted on deadlock / step horizon / panic).
func Run(ch Chooser, o Options, body func()) Result {
	activeMu.Lock()
	defer activeMu.Unlock()
	s := &Sched{chooser: ch, chans: map[uintptr]*chanModel{}, maxSteps: o.MaxSteps, done: make(chan struct{}), logOn: o.Log, gomax: o.GOMAXPROCS, onPoint: o.OnPoint, digest: o.Digest, localOpt: o.LocalOpt, prefill: o.PoolPrefill, families: o.Families, steer: o.Steer}
	if s.maxSteps == 0 {
		s.maxSteps = 1 << 20
	}
	if s.gomax == 0 {
		s.gomax = 4
	}
	s.res.MaxQueued = map[int]int{}
	if o.ColdOnces {
		for _, om := range allOnces {
			om.done, om.running = false, false
		}
	}
	epoch++
	s.epoch = epoch
	active = s
	t := &thread{id: 0, cid: 0x51ed270b1, wake: make(chan struct{}, 1)}
	s.threads = append(s.threads, t)
	s.cur = t
	go s.runThread(t, body)
	t.wake <- struct{}{}
	<-s.done
	active = nil
	s.res.Threads = len(s.threads)
	return s.res
}

func (s *Sched) runThread(t *thread, f func()) {
	<-t.wake
	if s.aborted {
		t.done = true
		s.threadExit(t)
		return
	}
	defer func() {
		if r := recover(); r != nil {
			if a, ok := r.(Abort); ok {
				if !s.aborted {
					s.res.Pruned = a.Reason
					s.abort()
				}
			} else if _, ok := r.(abortSentinel); !ok && !s.aborted {
				s.res.Panic = fmt.Sprintf("%v\n%s", r, stack())
				s.res.PanicThr = t.id
				s.abort()
			}
		}
		t.done = true
		s.threadExit(t)
	}()
	f()
}

func stack() string {
	b := make([]byte, 4096)
	return string(b[:runtime.Stack(b, false)])
}

// Active reports whether a controlled execution is in progress (shims fall back to plain
// behaviour otherwise, e.g. during package init).
func Active() bool { return active != nil }

func cur() (*Sched, *thread) {
	s := active
	if s == nil {
		return nil, nil
	}
	// program position of the thread in terms of modelled operations, counted whether or
	// not the operation becomes a scheduling point (local operations are skipped as points)
	s.cur.pos++
	return s, s.cur
}

func (s *Sched) chanOf(c any) *chanModel { return s.chanOfNew(c, false) }

func (s *Sched) chanOfNew(c any, fresh bool) *chanModel {
	v := reflect.ValueOf(c)
	p := v.Pointer()
	if p == 0 {
		return nil // nil channel: blocks forever
	}
	m := s.chans[p]
	if m == nil || fresh {
		m = &chanModel{ref: c, id: s.nchan, cap: v.Cap()}
		if t := s.cur; t != nil {
			t.nchan++
			m.cid = mix(t.cid^0xc4a9, t.nchan)
		}
		s.nchan++
		s.chans[p] = m
	}
	return m
}

// owner tracks which family has touched a synchronisation object.
type owner struct {
	fam    int // family + 1; 0 = untouched
	shared bool
}

// touch records that t uses the object and reports whether it is (still) private to t's family.
func (o *owner) touch(t *thread) bool {
	if o.shared {
		return false
	}
	if o.fam == 0 {
		o.fam = t.family + 1
		return true
	}
	if o.fam != t.family+1 {
		o.shared = true
		return false
	}
	return true
}

// private reports whether ch has been touched by t alone (and marks the touch).
func (s *Sched) private(ch *chanModel, t *thread) bool {
	if ch == nil {
		return false
	}
	if ch.shared {
		return false
	}
	if ch.owner == nil {
		ch.owner = t
	} else if ch.owner != t {
		ch.shared = true
		return false
	}
	return s.localOpt
}

func mix(a, b uint64) uint64 {
	x := (a ^ (b + 0x9e3779b97f4a7c15)) * 0xbf58476d1ce4e5b9
	x ^= x >> 27
	x *= 0x94d049bb133111eb
	return x ^ x>>31
}

// MakeChan registers a freshly made channel under the creating thread (rewritten code wraps
// every make(chan ...) in it), so channel identities do not depend on who uses it first.
func MakeChan[C any](c C) C {
	if s := active; s != nil {
		s.chanOfNew(c, true)
	}
	return c
}

func (s *Sched) log(t *thread, what string, ch *chanModel) {
	if !s.logOn {
		return
	}
	id := -1
	if ch != nil {
		id = ch.id
	}
	s.res.Log = append(s.res.Log, Event{Thread: t.id, What: what, Chan: id})
}

// ---- enabledness ----

func (s *Sched) waitingRecv(ch *chanModel, except *thread) *thread {
	for _, t := range s.threads {
		if t == except || t.done || t.handed {
			continue
		}
		if t.op == opRecv && t.ch == ch {
			return t
		}
		if t.op == opSelect {
			for _, c := range t.cases {
				if !c.send && c.ch == ch {
					return t
				}
			}
		}
	}
	return nil
}

func (s *Sched) waitingSend(ch *chanModel, except *thread) *thread {
	for _, t := range s.threads {
		if t == except || t.done || t.handed {
			continue
		}
		if t.op == opSend && t.ch == ch {
			return t
		}
		if t.op == opSelect {
			for _, c := range t.cases {
				if c.send && c.ch == ch {
					return t
				}
			}
		}
	}
	return nil
}

func (s *Sched) sendReady(ch *chanModel, me *thread) bool {
	if ch == nil {
		return false
	}
	// buffered: room in the buffer; unbuffered: a receiver is waiting (rendezvous)
	return ch.closed || len(ch.buf) < ch.cap || (ch.cap == 0 && s.waitingRecv(ch, me) != nil)
}

func (s *Sched) recvReady(ch *chanModel, me *thread) bool {
	if ch == nil {
		return false
	}
	// buffered: something in the buffer; unbuffered: a sender is waiting (rendezvous)
	return len(ch.buf) > 0 || ch.closed || (ch.cap == 0 && s.waitingSend(ch, me) != nil)
}

func (s *Sched) enabled(t *thread) bool {
	if t.done {
		return false
	}
	if t.handed {
		return true
	}
	switch t.op {
	case opSend:
		return s.sendReady(t.ch, t)
	case opRecv:
		return s.recvReady(t.ch, t)
	case opSelect:
		if t.hasDef {
			return true
		}
		for _, c := range t.cases {
			if c.send && s.sendReady(c.ch, t) || !c.send && s.recvReady(c.ch, t) {
				return true
			}
		}
		return false
	case opWait:
		return t.wg.n == 0
	case opLock:
		return !t.mu.locked && t.mu.readers == 0
	case opRLock:
		return !t.mu.locked
	case opOnce:
		return !t.once.running
	}
	return true
}

// ---- scheduling ----

func (s *Sched) abort() {
	if s.aborted {
		return
	}
	s.aborted = true
}

// point is called by the running thread with its pending operation set. It returns when
// this thread has been chosen to perform the operation.
func (s *Sched) point(t *thread) {
	if s.aborted {
		panic(abortSentinel{})
	}
	t.events++
	s.res.Steps++
	if s.res.Steps > s.maxSteps {
		s.res.Livelock = true
		s.abort()
		panic(abortSentinel{})
	}
	if s.onPoint != nil {
		s.onPoint(s)
	}
	if s.families && t.private && s.enabled(t) {
		t.private = false
		return
	}
	t.private = false
	next := s.pick(t)
	if next == nil {
		s.res.Deadlock = true
		s.res.Blocked = s.describeBlocked()
		s.abort()
		panic(abortSentinel{})
	}
	if next != t {
		s.cur = next
		next.wake <- struct{}{}
		<-t.wake
		if s.aborted {
			panic(abortSentinel{})
		}
	}
}

// choose asks the explorer. If the explorer ends the execution (state pruning, replay
// divergence) the execution is marked aborted BEFORE the stack unwinds, so that deferred
// calls of the code under test cannot reach further scheduling points.
func (s *Sched) choose(n int, preempt bool, kind string) int {
	defer func() {
		if r := recover(); r != nil {
			if a, ok := r.(Abort); ok {
				s.res.Pruned = a.Reason
			} else if s.res.Panic == nil {
				s.res.Panic = fmt.Sprintf("%v", r)
			}
			s.abort()
			panic(abortSentinel{})
		}
	}()
	return s.chooser.Choose(n, preempt, kind)
}

// pick chooses the next thread among the enabled ones (canonical order: the running thread
// first if still enabled, then ascending ids).
func (s *Sched) pick(running *thread) *thread {
	var en []*thread
	curEnabled := running != nil && !running.done && s.enabled(running)
	if curEnabled {
		en = append(en, running)
	}
	for _, t := range s.threads {
		if t != running && s.enabled(t) {
			en = append(en, t)
		}
	}
	if s.steer != nil && len(en) > 0 {
		ids := make([]int, len(en))
		for i, t := range en {
			ids[i] = t.id
		}
		i := s.steer(ids)
		if i < 0 || i >= len(en) {
			i = 0
		}
		return en[i]
	}
	switch len(en) {
	case 0:
		return nil
	case 1:
		return en[0]
	}
	if s.families {
		return s.pickFamily(running, en, curEnabled)
	}
	if DebugEnabled {
		LastEnabled = ""
		for _, t := range en {
			LastEnabled += fmt.Sprintf("[t%d op=%d handed=%v ev=%d]", t.id, t.op, t.handed, t.events)
		}
	}
	i := s.choose(len(en), curEnabled, "sched")
	if i < 0 || i >= len(en) {
		panic(fmt.Sprintf("vsched: chooser returned %d of %d", i, len(en)))
	}
	return en[i]
}

// pickFamily: one candidate per family (the running thread for its own family if it is
// enabled, otherwise the lowest enabled id); the explorer chooses between families, the
// current family first.
func (s *Sched) pickFamily(running *thread, en []*thread, curEnabled bool) *thread {
	curFam := -1
	if running != nil {
		curFam = running.family
	} else if s.cur != nil {
		curFam = s.cur.family
	}
	var reps []*thread
	seen := map[int]bool{}
	// current family first
	for _, t := range en {
		if t.family == curFam {
			reps = append(reps, t)
			seen[curFam] = true
			break
		}
	}
	for _, t := range en {
		if !seen[t.family] {
			seen[t.family] = true
			reps = append(reps, t)
		}
	}
	if len(reps) == 1 {
		return reps[0]
	}
	i := s.choose(len(reps), seen[curFam] && reps[0].family == curFam, "sched")
	if i < 0 || i >= len(reps) {
		panic(fmt.Sprintf("vsched: chooser returned %d of %d", i, len(reps)))
	}
	return reps[i]
}

func (s *Sched) threadExit(t *thread) {
	if s.aborted {
		// unwind the remaining threads one at a time
		s.wakeNextAborted()
		return
	}
	var next *thread
	pruned := false
	func() {
		defer func() {
			if r := recover(); r != nil {
				if _, ok := r.(abortSentinel); !ok {
					panic(r)
				}
				pruned = true
			}
		}()
		next = s.pick(nil)
	}()
	if pruned {
		s.wakeNextAborted()
		return
	}
	if next == nil {
		alive := false
		for _, o := range s.threads {
			if !o.done {
				alive = true
			}
		}
		if !alive {
			s.finish()
			return
		}
		s.res.Deadlock = true
		s.res.Blocked = s.describeBlocked()
		s.abort()
		s.wakeNextAborted()
		return
	}
	s.cur = next
	next.wake <- struct{}{}
}

func (s *Sched) wakeNextAborted() {
	for _, o := range s.threads {
		if !o.done {
			s.cur = o
			o.wake <- struct{}{}
			return
		}
	}
	s.finish()
}

func (s *Sched) finish() {
	select {
	case <-s.done:
	default:
		close(s.done)
	}
}

// describeBlocked lists, for a deadlock report, what every unfinished thread waits for.
func (s *Sched) describeBlocked() []string {
	var out []string
	names := map[opKind]string{opNone: "not started/plain", opSend: "send", opRecv: "recv", opSelect: "select", opWait: "WaitGroup.Wait", opLock: "Lock", opRLock: "RLock", opOnce: "Once.Do", opPlain: "plain"}
	for _, t := range s.threads {
		if t.done {
			continue
		}
		d := fmt.Sprintf("thread %d: %s", t.id, names[t.op])
		if t.ch != nil && (t.op == opSend || t.op == opRecv) {
			d += fmt.Sprintf(" on chan %d (len %d cap %d closed %v)", t.ch.id, len(t.ch.buf), t.ch.cap, t.ch.closed)
		}
		if t.handed {
			d += " [handed]"
		}
		out = append(out, d)
	}
	return out
}

// ---- public operations (called by rewritten code) ----

// Go starts a managed thread.
func Go(f func()) {
	s, t := cur()
	if s == nil {
		go f()
		return
	}
	t.nspawn++
	n := &thread{id: len(s.threads), cid: mix(t.cid, t.nspawn), wake: make(chan struct{}, 1)}
	n.family = t.family
	if t.id == 0 {
		n.family = n.id
	}
	s.threads = append(s.threads, n)
	go s.runThread(n, f)
	s.log(t, "spawn", nil)
	t.op = opPlain
	t.private = t.id != 0
	s.point(t)
}

// GOMAXPROCS is what runtime.GOMAXPROCS(0) is rewritten to.
func GOMAXPROCS() int {
	if s := active; s != nil {
		return s.gomax
	}
	return runtime.GOMAXPROCS(0)
}

// Yield is a plain scheduling point.
func Yield() {
	s, t := cur()
	if s == nil {
		return
	}
	t.op = opPlain
	s.point(t)
}

func (s *Sched) noteQueue(ch *chanModel) {
	if len(ch.buf) > s.res.MaxQueued[ch.id] {
		s.res.MaxQueued[ch.id] = len(ch.buf)
	}
}

// doSend performs an enabled send by t.
func (s *Sched) doSend(t *thread, ch *chanModel, v any) {
	if ch.closed {
		panic("send on closed channel")
	}
	if ch.cap == 0 {
		if r := s.waitingRecv(ch, t); r != nil {
			// hand over directly
			s.complete(r, ch, v, true)
			s.log(t, "send(handoff)", ch)
			return
		}
	}
	if len(ch.buf) < ch.cap {
		ch.buf = append(ch.buf, v)
		s.noteQueue(ch)
		s.log(t, "send", ch)
		return
	}
	panic("vsched: send scheduled although not enabled")
}

// complete finishes thread r's pending receive (or the receive case of its select).
func (s *Sched) complete(r *thread, ch *chanModel, v any, ok bool) {
	r.handed = true
	r.recvVal, r.recvOK = v, ok
	if r.op == opSelect {
		for i, c := range r.cases {
			if !c.send && c.ch == ch {
				r.selIdx = i
				break
			}
		}
	}
}

// doRecv performs an enabled receive by t.
func (s *Sched) doRecv(t *thread, ch *chanModel) (any, bool) {
	if len(ch.buf) > 0 {
		v := ch.buf[0]
		ch.buf = ch.buf[1:]
		s.log(t, "recv", ch)
		return v, true
	}
	if w := s.waitingSend(ch, t); w != nil && ch.cap == 0 {
		// take the sender's value directly and complete its send
		var v any
		if w.op == opSend {
			v = w.val
		} else {
			for i, c := range w.cases {
				if c.send && c.ch == ch {
					v = c.val
					w.selIdx = i
					break
				}
			}
		}
		w.handed = true
		s.log(t, "recv(handoff)", ch)
		return v, true
	}
	if ch.closed {
		s.log(t, "recv(closed)", ch)
		return nil, false
	}
	panic("vsched: receive scheduled although not enabled")
}

// SendAny / RecvAny are the untyped cores used by the generic wrappers.
func SendAny(c any, v any) bool {
	s, t := cur()
	if s == nil {
		return false
	}
	ch := s.chanOf(c)
	if s.private(ch, t) && ch != nil && !ch.closed && len(ch.buf) < ch.cap {
		ch.buf = append(ch.buf, v)
		s.noteQueue(ch)
		s.log(t, "send(local)", ch)
		return true
	}
	t.op, t.ch, t.val, t.handed = opSend, ch, v, false
	t.private = ch != nil && ch.fam.touch(t)
	s.point(t)
	if t.handed {
		t.handed = false
		t.op = opNone
		return true
	}
	t.op = opNone
	s.doSend(t, ch, v)
	return true
}

func RecvAny(c any) (v any, ok bool, managed bool) {
	s, t := cur()
	if s == nil {
		return nil, false, false
	}
	ch := s.chanOf(c)
	if s.private(ch, t) && ch != nil && len(ch.buf) > 0 {
		v = ch.buf[0]
		ch.buf = ch.buf[1:]
		s.log(t, "recv(local)", ch)
		s.observe(t, v, true)
		return v, true, true
	}
	t.op, t.ch, t.handed = opRecv, ch, false
	t.private = ch != nil && ch.fam.touch(t)
	s.point(t)
	if t.handed {
		t.handed = false
		v, ok = t.recvVal, t.recvOK
	} else {
		v, ok = s.doRecv(t, ch)
	}
	// A second point right after the receive: the receiver now owns whatever the value
	// refers to (an index-buffer slot, a pooled buffer) but has not used it yet. Without
	// it the use would be glued to the receive and a writer overtaking the receiver
	// (unsynchronised reuse of that memory) could never be interleaved in between.
	s.observe(t, v, ok)
	t.op = opPlain
	t.private = ch != nil && !ch.fam.shared
	s.point(t)
	t.op = opNone
	return v, ok, true
}

// observe folds a value a thread obtained from the environment into its observation hash.
func (s *Sched) observe(t *thread, v any, ok bool) {
	x := uint64(0x9e3779b97f4a7c15)
	if !ok {
		x = 0x1234567
	} else if s.digest != nil {
		x ^= s.digest(v)
	}
	t.obsHash = (t.obsHash ^ x) * 1099511628211
	t.obsHash ^= t.obsHash >> 31
}

// ChanID gives the model identity of a channel (for digests of channels sent over channels).
func ChanID(c any) uint64 {
	s := active
	if s == nil {
		return 0
	}
	m := s.chanOf(c)
	if m == nil {
		return 0
	}
	return m.cid
}

func CloseAny(c any) bool {
	s, t := cur()
	if s == nil {
		return false
	}
	ch := s.chanOf(c)
	t.op = opPlain
	t.private = ch != nil && ch.fam.touch(t)
	s.point(t)
	if ch.closed {
		panic("close of closed channel")
	}
	ch.closed = true
	s.log(t, "close", ch)
	return true
}

// LenAny gives len(ch) of the model.
func LenAny(c any) (int, bool) {
	s, _ := cur()
	if s == nil {
		return 0, false
	}
	return len(s.chanOf(c).buf), true
}

// SelCase is one case of a rewritten select.
type SelCase struct {
	C    any
	Send bool
	Val  any
	// results for receive cases
	RecvVal any
	RecvOK  bool
}

// SelectAny performs a select over the cases; returns the index of the chosen case or -1
// for default.
func SelectAny(hasDefault bool, cases []*SelCase) (int, bool) {
	s, t := cur()
	if s == nil {
		return 0, false
	}
	t.cases = t.cases[:0]
	for _, c := range cases {
		t.cases = append(t.cases, selCase{ch: s.chanOf(c.C), send: c.Send, val: c.Val})
	}
	t.op, t.hasDef, t.handed = opSelect, hasDefault, false
	t.private = true
	for _, c := range t.cases {
		if c.ch == nil || !c.ch.fam.touch(t) {
			t.private = false
		}
	}
	s.point(t)
	if t.handed {
		t.handed = false
		t.op = opNone
		i := t.selIdx
		if !cases[i].Send {
			cases[i].RecvVal, cases[i].RecvOK = t.recvVal, t.recvOK
			s.observe(t, t.recvVal, t.recvOK)
		}
		s.observe(t, i, true)
		return i, true
	}
	t.op = opNone
	var ready []int
	for i, c := range t.cases {
		if c.send && s.sendReady(c.ch, t) || !c.send && s.recvReady(c.ch, t) {
			ready = append(ready, i)
		}
	}
	if len(ready) == 0 {
		if !hasDefault {
			panic("vsched: select scheduled although not enabled")
		}
		s.log(t, "select(default)", nil)
		s.observe(t, -1, true)
		return -1, true
	}
	k := 0
	if len(ready) > 1 {
		k = s.choose(len(ready), false, "select")
	}
	i := ready[k]
	c := t.cases[i]
	if c.send {
		s.doSend(t, c.ch, c.val)
	} else {
		cases[i].RecvVal, cases[i].RecvOK = s.doRecv(t, c.ch)
		s.observe(t, cases[i].RecvVal, cases[i].RecvOK)
	}
	s.observe(t, i, true)
	return i, true
}

// ---- sync models ----

type WaitGroupModel struct {
	n   int
	fam owner
}

func (w *WaitGroupModel) Add(d int) {
	w.n += d
	if w.n < 0 {
		panic("sync: negative WaitGroup counter")
	}
}

func (w *WaitGroupModel) Done() {
	s, t := cur()
	if s != nil {
		t.op = opPlain
		t.private = w.fam.touch(t)
		s.point(t)
		s.log(t, "wg.Done", nil)
	}
	w.Add(-1)
}

func (w *WaitGroupModel) Wait() {
	s, t := cur()
	if s == nil {
		if w.n != 0 {
			panic("vsched: WaitGroup.Wait outside a controlled execution with non-zero counter")
		}
		return
	}
	t.op, t.wg = opWait, w
	t.private = w.fam.touch(t)
	s.point(t)
	t.op = opNone
	s.log(t, "wg.Wait", nil)
}

type MutexModel struct {
	locked  bool
	readers int
	fam     owner
}

func (m *MutexModel) Lock() {
	s, t := cur()
	if s == nil {
		m.locked = true
		return
	}
	t.op, t.mu = opLock, m
	t.private = m.fam.touch(t)
	s.point(t)
	t.op = opNone
	m.locked = true
}

func (m *MutexModel) TryLock() bool {
	s, t := cur()
	if s != nil {
		t.op = opPlain
		s.point(t)
	}
	if m.locked || m.readers > 0 {
		return false
	}
	m.locked = true
	return true
}

func (m *MutexModel) Unlock() {
	if !m.locked {
		panic("sync: unlock of unlocked mutex")
	}
	m.locked = false
}

func (m *MutexModel) RLock() {
	s, t := cur()
	if s == nil {
		m.readers++
		return
	}
	t.op, t.mu = opRLock, m
	t.private = m.fam.touch(t)
	s.point(t)
	t.op = opNone
	m.readers++
}

func (m *MutexModel) RUnlock() { m.readers-- }

type OnceModel struct {
	done    bool
	running bool
	known   bool
}

// allOnces: every Once that was ever used (they guard process-wide state and live for the
// whole process); only touched while the scheduler lock is held or outside any execution.
var allOnces []*OnceModel

// (a Once is always treated as shared: it guards process-wide initialisation)

func (o *OnceModel) Do(f func()) {
	if !o.known {
		o.known = true
		allOnces = append(allOnces, o)
	}
	s, t := cur()
	if s == nil {
		if !o.done {
			o.done = true
			f()
		}
		return
	}
	if o.done {
		return
	}
	t.op, t.once = opOnce, o
	s.point(t)
	t.op = opNone
	if o.done {
		return
	}
	o.running = true
	defer func() { o.running, o.done = false, true }()
	f()
}

type PoolModel struct {
	New   func() any
	items []any
	epoch uint64
	cid   uint64
	fam   owner
}

// reg attaches the pool to the running execution: pools are emptied at the start of every
// execution (a real sync.Pool may drop its contents at any time) and identified by the
// order in which the execution first touches them on the touching thread.
func (p *PoolModel) reg() {
	s := active
	if s == nil || p.epoch == s.epoch {
		return
	}
	// a pool that already existed in an earlier execution is a package-level one: shared
	p.fam = owner{shared: p.epoch != 0}
	p.epoch = s.epoch
	if s.prefill > 0 {
		for len(p.items) > s.prefill {
			p.items = p.items[:len(p.items)-1]
		}
		for len(p.items) < s.prefill && p.New != nil {
			p.items = append(p.items, p.New())
		}
	} else {
		p.items = p.items[:0]
	}
	var tc uint64
	if s.cur != nil {
		tc = s.cur.cid
	}
	s.npool++
	p.cid = mix(tc^0x9001, uint64(len(s.pools)))
	s.pools = append(s.pools, p)
}

func (p *PoolModel) Get() any {
	p.reg()
	s, t := cur()
	if s != nil {
		t.op = opPlain
		t.private = p.fam.touch(t)
		s.point(t)
		if len(p.items) > 0 && p.New != nil {
			// environment answer: recycled object (default) or a fresh one
			if s.choose(2, false, "pool") == 1 {
				v := p.New()
				t.obsHash = mix(t.obsHash, s.objID(v, t))
				return v
			}
		}
	}
	if n := len(p.items); n > 0 {
		v := p.items[n-1]
		p.items = p.items[:n-1]
		if s != nil {
			t.obsHash = mix(t.obsHash, s.objID(v, t)^0x5ec)
		}
		return v
	}
	if p.New != nil {
		v := p.New()
		if s != nil {
			t.obsHash = mix(t.obsHash, s.objID(v, t))
		}
		return v
	}
	return nil
}

func (p *PoolModel) Put(v any) {
	p.reg()
	s, t := cur()
	if s != nil {
		t.op = opPlain
		t.private = p.fam.touch(t)
		s.point(t)
	}
	p.items = append(p.items, v)
	if s != nil {
		// and once more after publishing: whoever takes the object may run before the
		// publisher's next step (an object handed back while still in use)
		t.op = opPlain
		t.private = !p.fam.shared
		s.point(t)
	}
}

// objID gives a pooled object an identity that does not depend on addresses or timing:
// (thread that first handled it, that thread's object counter).
func (s *Sched) objID(v any, t *thread) uint64 {
	rv := reflect.ValueOf(v)
	var p uintptr
	switch rv.Kind() {
	case reflect.Slice, reflect.Ptr, reflect.Map, reflect.Chan, reflect.UnsafePointer, reflect.Func:
		p = rv.Pointer()
	}
	if p == 0 {
		return 1
	}
	if s.objIDs == nil {
		s.objIDs = map[uintptr]uint64{}
	}
	id, ok := s.objIDs[p]
	if !ok {
		var tc uint64
		if t != nil {
			t.nobj++
			tc = mix(t.cid^0x0b1ec7, t.nobj)
		}
		id = tc
		s.objIDs[p] = id
		s.objPins = append(s.objPins, v) // keep it alive: its address must not be reused
	}
	return id
}

// AtomicPoint is the scheduling point before an atomic operation.
func AtomicPoint() {
	s, t := cur()
	if s == nil || s.localOpt {
		return
	}
	t.op = opPlain
	t.private = true
	s.point(t)
	s.log(t, "atomic", nil)
}

// Note lets harness code add to the event log.
func Note(what string) {
	s, t := cur()
	if s != nil {
		s.log(t, what, nil)
	}
}

// ThreadID of the running managed thread (-1 outside).
func ThreadID() int {
	_, t := cur()
	if t == nil {
		return -1
	}
	return t.id
}

// Snapshot of modelled state for state keys: per-channel buffered counts and per-thread
// operation counters.
func (s *Sched) Key(extra func(add func(uint64))) uint64 {
	h := uint64(1469598103934665603)
	add := func(v uint64) {
		h ^= v
		h *= 1099511628211
		h ^= h >> 29
	}
	for _, t := range s.threads {
		add(uint64(t.id))
		add(t.events)
		if t.done {
			add(0xdead)
		}
		add(uint64(t.op))
	}
	if extra != nil {
		extra(add)
	}
	return h
}

// CurrentKey hashes the modelled state of the running execution plus harness extras.
// Threads and channels enter by canonical identity and are combined commutatively, so two
// interleavings that reach the same state get the same key.
func CurrentKey(extra func(add func(uint64))) uint64 {
	s := active
	if s == nil {
		return 0
	}
	var sum uint64
	for _, t := range s.threads {
		h := mix(t.cid, t.events)
		h = mix(h, t.pos)
		h = mix(h, uint64(t.op))
		if t.done {
			h = mix(h, 0xdead)
		}
		if t.handed {
			h = mix(h, 0xface)
		}
		h = mix(h, t.obsHash)
		sum += h
	}
	for _, p := range s.pools {
		h := mix(p.cid, uint64(len(p.items)))
		for _, v := range p.items {
			h = mix(h, s.objID(v, s.cur)) // in order: Get takes the most recent one
		}
		sum += h
	}
	for _, c := range s.chans {
		h := mix(c.cid, uint64(len(c.buf)))
		if c.closed {
			h = mix(h, 0xc105ed)
		}
		if s.digest != nil {
			for _, v := range c.buf {
				h = mix(h, s.digest(v))
			}
		}
		sum += h
	}
	if extra != nil {
		h := uint64(1469598103934665603)
		extra(func(v uint64) { h = mix(h, v) })
		sum += h
	}
	return sum
}

// DescribeState renders the components of CurrentKey (debugging state-key soundness).
func DescribeState() string {
	s := active
	if s == nil {
		return ""
	}
	var out []string
	for _, t := range s.threads {
		out = append(out, fmt.Sprintf("T%d cid=%x pos=%d ev=%d op=%d done=%v handed=%v obs=%x", t.id, t.cid&0xffff, t.pos, t.events, t.op, t.done, t.handed, t.obsHash&0xffffff))
	}
	for _, c := range s.chans {
		d := ""
		if s.digest != nil {
			for _, v := range c.buf {
				d += fmt.Sprintf("%x,", s.digest(v)&0xffff)
			}
		}
		out = append(out, fmt.Sprintf("C cid=%x len=%d closed=%v [%s]", c.cid&0xffff, len(c.buf), c.closed, d))
	}
	for _, p := range s.pools {
		d := ""
		for _, v := range p.items {
			d += fmt.Sprintf("%x,", s.objID(v, s.cur)&0xffff)
		}
		out = append(out, fmt.Sprintf("P cid=%x [%s]", p.cid&0xffff, d))
	}
	sort.Strings(out)
	return strings.Join(out, "\n")
}

// LiveOthers counts managed threads other than the caller that have not finished.
func LiveOthers() int {
	s := active
	if s == nil {
		return 0
	}
	n := 0
	for _, t := range s.threads {
		if t != s.cur && !t.done {
			n++
		}
	}
	return n
}
