// Package vsched is a controlled cooperative scheduler: the package under test is rewritten
// (cmd/vinstr) so that every go statement, channel operation, select, sync and atomic
// operation goes through this package. Exactly one managed thread runs at a time; at every
// scheduling point the explorer chooses which enabled thread continues. Channel contents,
// wait-group counters, mutex owners and pool contents live in the model, so a managed
// thread never blocks inside the Go runtime and the enabled set is exact.
package vsched

import (
	"fmt"
	"reflect"
	"runtime"
	"sync"
)

// Chooser answers every non-deterministic decision of one execution.
// n >= 2 alternatives; preempt reports whether alternative 0 is "keep running the current
// thread" (so any other answer is a preemption). kind is "sched", "select" or "pool".
type Chooser interface {
	Choose(n int, preempt bool, kind string) int
}

type opKind int

const (
	opNone opKind = iota
	opSend
	opRecv
	opSelect
	opWait
	opLock
	opRLock
	opOnce
	opPlain // always enabled (atomic, Done, Close, spawn, pool, exit-less points)
)

type selCase struct {
	ch   *chanModel
	send bool
	val  any
}

type thread struct {
	id      int
	wake    chan struct{}
	op      opKind
	ch      *chanModel
	val     any
	cases   []selCase
	hasDef  bool
	wg      *WaitGroupModel
	mu      *MutexModel
	once    *OnceModel
	done    bool
	handed  bool // a rendezvous partner completed this thread's pending op
	recvVal any
	recvOK  bool
	selIdx  int
	events  uint64 // per-thread operation counter (state keys)
	obsHash uint64 // hash of values observed by this thread
}

type chanModel struct {
	id     int
	cap    int
	buf    []any
	closed bool
}

// Event is one entry of the hand-off log.
type Event struct {
	Thread int
	What   string
	Chan   int
}

// Result of one execution.
type Result struct {
	Deadlock  bool
	Livelock  bool
	Pruned    string
	Panic     any
	PanicThr  int
	Steps     int
	Threads   int
	Log       []Event
	MaxQueued map[int]int // per channel id: maximum buffered entries seen
}

type Sched struct {
	chooser  Chooser
	threads  []*thread
	cur      *thread
	chans    map[uintptr]*chanModel
	nchan    int
	aborted  bool
	res      Result
	maxSteps int
	done     chan struct{}
	logOn    bool
	gomax    int
	pools    []*PoolModel
	onPoint  func(s *Sched) // optional hook called at every scheduling point (state keys)
}

var (
	active   *Sched
	activeMu sync.Mutex
	allPools []*PoolModel
)

type abortSentinel struct{}

// Abort may be panicked by a Chooser to end the current execution early (state pruning).
type Abort struct{ Reason string }

// Options for Run.
type Options struct {
	MaxSteps   int
	Log        bool
	GOMAXPROCS int
	OnPoint    func(s *Sched)
}

// Run executes body as managed thread 0 under the chooser and returns when every managed
// thread has finished (or the execution was aborted on deadlock / step horizon / panic).
func Run(ch Chooser, o Options, body func()) Result {
	activeMu.Lock()
	defer activeMu.Unlock()
	s := &Sched{chooser: ch, chans: map[uintptr]*chanModel{}, maxSteps: o.MaxSteps, done: make(chan struct{}), logOn: o.Log, gomax: o.GOMAXPROCS, onPoint: o.OnPoint}
	if s.maxSteps == 0 {
		s.maxSteps = 1 << 20
	}
	if s.gomax == 0 {
		s.gomax = 4
	}
	s.res.MaxQueued = map[int]int{}
	for _, p := range allPools {
		p.items = p.items[:0]
	}
	active = s
	t := &thread{id: 0, wake: make(chan struct{}, 1)}
	s.threads = append(s.threads, t)
	s.cur = t
	go s.runThread(t, body)
	t.wake <- struct{}{}
	<-s.done
	active = nil
	s.res.Threads = len(s.threads)
	return s.res
}

func (s *Sched) runThread(t *thread, f func()) {
	<-t.wake
	if s.aborted {
		t.done = true
		s.threadExit(t)
		return
	}
	defer func() {
		if r := recover(); r != nil {
			if a, ok := r.(Abort); ok {
				if !s.aborted {
					s.res.Pruned = a.Reason
					s.abort()
				}
			} else if _, ok := r.(abortSentinel); !ok && !s.aborted {
				s.res.Panic = fmt.Sprintf("%v\n%s", r, stack())
				s.res.PanicThr = t.id
				s.abort()
			}
		}
		t.done = true
		s.threadExit(t)
	}()
	f()
}

func stack() string {
	b := make([]byte, 4096)
	return string(b[:runtime.Stack(b, false)])
}

// Active reports whether a controlled execution is in progress (shims fall back to plain
// behaviour otherwise, e.g. during package init).
func Active() bool { return active != nil }

func cur() (*Sched, *thread) {
	s := active
	if s == nil {
		return nil, nil
	}
	return s, s.cur
}

func (s *Sched) chanOf(c any) *chanModel {
	v := reflect.ValueOf(c)
	p := v.Pointer()
	if p == 0 {
		return nil // nil channel: blocks forever
	}
	m := s.chans[p]
	if m == nil {
		m = &chanModel{id: s.nchan, cap: v.Cap()}
		s.nchan++
		s.chans[p] = m
	}
	return m
}

func (s *Sched) log(t *thread, what string, ch *chanModel) {
	if !s.logOn {
		return
	}
	id := -1
	if ch != nil {
		id = ch.id
	}
	s.res.Log = append(s.res.Log, Event{Thread: t.id, What: what, Chan: id})
}

// ---- enabledness ----

func (s *Sched) waitingRecv(ch *chanModel, except *thread) *thread {
	for _, t := range s.threads {
		if t == except || t.done || t.handed {
			continue
		}
		if t.op == opRecv && t.ch == ch {
			return t
		}
		if t.op == opSelect {
			for _, c := range t.cases {
				if !c.send && c.ch == ch {
					return t
				}
			}
		}
	}
	return nil
}

func (s *Sched) waitingSend(ch *chanModel, except *thread) *thread {
	for _, t := range s.threads {
		if t == except || t.done || t.handed {
			continue
		}
		if t.op == opSend && t.ch == ch {
			return t
		}
		if t.op == opSelect {
			for _, c := range t.cases {
				if c.send && c.ch == ch {
					return t
				}
			}
		}
	}
	return nil
}

func (s *Sched) sendReady(ch *chanModel, me *thread) bool {
	if ch == nil {
		return false
	}
	return ch.closed || len(ch.buf) < ch.cap || (len(ch.buf) == 0 && s.waitingRecv(ch, me) != nil)
}

func (s *Sched) recvReady(ch *chanModel, me *thread) bool {
	if ch == nil {
		return false
	}
	return len(ch.buf) > 0 || ch.closed || s.waitingSend(ch, me) != nil
}

func (s *Sched) enabled(t *thread) bool {
	if t.done {
		return false
	}
	if t.handed {
		return true
	}
	switch t.op {
	case opSend:
		return s.sendReady(t.ch, t)
	case opRecv:
		return s.recvReady(t.ch, t)
	case opSelect:
		if t.hasDef {
			return true
		}
		for _, c := range t.cases {
			if c.send && s.sendReady(c.ch, t) || !c.send && s.recvReady(c.ch, t) {
				return true
			}
		}
		return false
	case opWait:
		return t.wg.n == 0
	case opLock:
		return !t.mu.locked && t.mu.readers == 0
	case opRLock:
		return !t.mu.locked
	case opOnce:
		return !t.once.running
	}
	return true
}

// ---- scheduling ----

func (s *Sched) abort() {
	if s.aborted {
		return
	}
	s.aborted = true
}

// point is called by the running thread with its pending operation set. It returns when
// this thread has been chosen to perform the operation.
func (s *Sched) point(t *thread) {
	if s.aborted {
		panic(abortSentinel{})
	}
	t.events++
	s.res.Steps++
	if s.res.Steps > s.maxSteps {
		s.res.Livelock = true
		s.abort()
		panic(abortSentinel{})
	}
	if s.onPoint != nil {
		s.onPoint(s)
	}
	next := s.pick(t)
	if next == nil {
		s.res.Deadlock = true
		s.abort()
		panic(abortSentinel{})
	}
	if next != t {
		s.cur = next
		next.wake <- struct{}{}
		<-t.wake
		if s.aborted {
			panic(abortSentinel{})
		}
	}
}

// pick chooses the next thread among the enabled ones (canonical order: the running thread
// first if still enabled, then ascending ids).
func (s *Sched) pick(running *thread) *thread {
	var en []*thread
	curEnabled := running != nil && !running.done && s.enabled(running)
	if curEnabled {
		en = append(en, running)
	}
	for _, t := range s.threads {
		if t != running && s.enabled(t) {
			en = append(en, t)
		}
	}
	switch len(en) {
	case 0:
		return nil
	case 1:
		return en[0]
	}
	i := s.chooser.Choose(len(en), curEnabled, "sched")
	if i < 0 || i >= len(en) {
		panic(fmt.Sprintf("vsched: chooser returned %d of %d", i, len(en)))
	}
	return en[i]
}

func (s *Sched) threadExit(t *thread) {
	if s.aborted {
		// unwind the remaining threads one at a time
		s.wakeNextAborted()
		return
	}
	next := s.pick(nil)
	if next == nil {
		alive := false
		for _, o := range s.threads {
			if !o.done {
				alive = true
			}
		}
		if !alive {
			s.finish()
			return
		}
		s.res.Deadlock = true
		s.abort()
		s.wakeNextAborted()
		return
	}
	s.cur = next
	next.wake <- struct{}{}
}

func (s *Sched) wakeNextAborted() {
	for _, o := range s.threads {
		if !o.done {
			s.cur = o
			o.wake <- struct{}{}
			return
		}
	}
	s.finish()
}

func (s *Sched) finish() {
	select {
	case <-s.done:
	default:
		close(s.done)
	}
}

// Blocked lists, for a deadlock report, what every unfinished thread waits for.
func (s *Sched) describe() string { return "" }

// ---- public operations (called by rewritten code) ----

// Go starts a managed thread.
func Go(f func()) {
	s, t := cur()
	if s == nil {
		go f()
		return
	}
	n := &thread{id: len(s.threads), wake: make(chan struct{}, 1)}
	s.threads = append(s.threads, n)
	go s.runThread(n, f)
	s.log(t, "spawn", nil)
	t.op = opPlain
	s.point(t)
}

// GOMAXPROCS is what runtime.GOMAXPROCS(0) is rewritten to.
func GOMAXPROCS() int {
	if s := active; s != nil {
		return s.gomax
	}
	return runtime.GOMAXPROCS(0)
}

// Yield is a plain scheduling point.
func Yield() {
	s, t := cur()
	if s == nil {
		return
	}
	t.op = opPlain
	s.point(t)
}

func (s *Sched) noteQueue(ch *chanModel) {
	if len(ch.buf) > s.res.MaxQueued[ch.id] {
		s.res.MaxQueued[ch.id] = len(ch.buf)
	}
}

// doSend performs an enabled send by t.
func (s *Sched) doSend(t *thread, ch *chanModel, v any) {
	if ch.closed {
		panic("send on closed channel")
	}
	if len(ch.buf) == 0 {
		if r := s.waitingRecv(ch, t); r != nil && len(ch.buf) == 0 {
			// hand over directly
			s.complete(r, ch, v, true)
			s.log(t, "send(handoff)", ch)
			return
		}
	}
	if len(ch.buf) < ch.cap {
		ch.buf = append(ch.buf, v)
		s.noteQueue(ch)
		s.log(t, "send", ch)
		return
	}
	panic("vsched: send scheduled although not enabled")
}

// complete finishes thread r's pending receive (or the receive case of its select).
func (s *Sched) complete(r *thread, ch *chanModel, v any, ok bool) {
	r.handed = true
	r.recvVal, r.recvOK = v, ok
	if r.op == opSelect {
		for i, c := range r.cases {
			if !c.send && c.ch == ch {
				r.selIdx = i
				break
			}
		}
	}
}

// doRecv performs an enabled receive by t.
func (s *Sched) doRecv(t *thread, ch *chanModel) (any, bool) {
	if len(ch.buf) > 0 {
		v := ch.buf[0]
		ch.buf = ch.buf[1:]
		s.log(t, "recv", ch)
		return v, true
	}
	if w := s.waitingSend(ch, t); w != nil {
		// take the sender's value directly and complete its send
		var v any
		if w.op == opSend {
			v = w.val
		} else {
			for i, c := range w.cases {
				if c.send && c.ch == ch {
					v = c.val
					w.selIdx = i
					break
				}
			}
		}
		w.handed = true
		s.log(t, "recv(handoff)", ch)
		return v, true
	}
	if ch.closed {
		s.log(t, "recv(closed)", ch)
		return nil, false
	}
	panic("vsched: receive scheduled although not enabled")
}

// SendAny / RecvAny are the untyped cores used by the generic wrappers.
func SendAny(c any, v any) bool {
	s, t := cur()
	if s == nil {
		return false
	}
	ch := s.chanOf(c)
	t.op, t.ch, t.val, t.handed = opSend, ch, v, false
	s.point(t)
	if t.handed {
		t.handed = false
		t.op = opNone
		return true
	}
	t.op = opNone
	s.doSend(t, ch, v)
	return true
}

func RecvAny(c any) (v any, ok bool, managed bool) {
	s, t := cur()
	if s == nil {
		return nil, false, false
	}
	ch := s.chanOf(c)
	t.op, t.ch, t.handed = opRecv, ch, false
	s.point(t)
	if t.handed {
		t.handed = false
		v, ok = t.recvVal, t.recvOK
	} else {
		v, ok = s.doRecv(t, ch)
	}
	// A second point right after the receive: the receiver now owns whatever the value
	// refers to (an index-buffer slot, a pooled buffer) but has not used it yet. Without
	// it the use would be glued to the receive and a writer overtaking the receiver
	// (unsynchronised reuse of that memory) could never be interleaved in between.
	t.op = opPlain
	s.point(t)
	t.op = opNone
	return v, ok, true
}

func CloseAny(c any) bool {
	s, t := cur()
	if s == nil {
		return false
	}
	ch := s.chanOf(c)
	t.op = opPlain
	s.point(t)
	if ch.closed {
		panic("close of closed channel")
	}
	ch.closed = true
	s.log(t, "close", ch)
	return true
}

// LenAny gives len(ch) of the model.
func LenAny(c any) (int, bool) {
	s, _ := cur()
	if s == nil {
		return 0, false
	}
	return len(s.chanOf(c).buf), true
}

// SelCase is one case of a rewritten select.
type SelCase struct {
	C    any
	Send bool
	Val  any
	// results for receive cases
	RecvVal any
	RecvOK  bool
}

// SelectAny performs a select over the cases; returns the index of the chosen case or -1
// for default.
func SelectAny(hasDefault bool, cases []*SelCase) (int, bool) {
	s, t := cur()
	if s == nil {
		return 0, false
	}
	t.cases = t.cases[:0]
	for _, c := range cases {
		t.cases = append(t.cases, selCase{ch: s.chanOf(c.C), send: c.Send, val: c.Val})
	}
	t.op, t.hasDef, t.handed = opSelect, hasDefault, false
	s.point(t)
	if t.handed {
		t.handed = false
		t.op = opNone
		i := t.selIdx
		if !cases[i].Send {
			cases[i].RecvVal, cases[i].RecvOK = t.recvVal, t.recvOK
		}
		return i, true
	}
	t.op = opNone
	var ready []int
	for i, c := range t.cases {
		if c.send && s.sendReady(c.ch, t) || !c.send && s.recvReady(c.ch, t) {
			ready = append(ready, i)
		}
	}
	if len(ready) == 0 {
		if !hasDefault {
			panic("vsched: select scheduled although not enabled")
		}
		s.log(t, "select(default)", nil)
		return -1, true
	}
	k := 0
	if len(ready) > 1 {
		k = s.chooser.Choose(len(ready), false, "select")
	}
	i := ready[k]
	c := t.cases[i]
	if c.send {
		s.doSend(t, c.ch, c.val)
	} else {
		cases[i].RecvVal, cases[i].RecvOK = s.doRecv(t, c.ch)
	}
	return i, true
}

// ---- sync models ----

type WaitGroupModel struct{ n int }

func (w *WaitGroupModel) Add(d int) {
	w.n += d
	if w.n < 0 {
		panic("sync: negative WaitGroup counter")
	}
}

func (w *WaitGroupModel) Done() {
	s, t := cur()
	if s != nil {
		t.op = opPlain
		s.point(t)
		s.log(t, "wg.Done", nil)
	}
	w.Add(-1)
}

func (w *WaitGroupModel) Wait() {
	s, t := cur()
	if s == nil {
		if w.n != 0 {
			panic("vsched: WaitGroup.Wait outside a controlled execution with non-zero counter")
		}
		return
	}
	t.op, t.wg = opWait, w
	s.point(t)
	t.op = opNone
	s.log(t, "wg.Wait", nil)
}

type MutexModel struct {
	locked  bool
	readers int
}

func (m *MutexModel) Lock() {
	s, t := cur()
	if s == nil {
		m.locked = true
		return
	}
	t.op, t.mu = opLock, m
	s.point(t)
	t.op = opNone
	m.locked = true
}

func (m *MutexModel) TryLock() bool {
	s, t := cur()
	if s != nil {
		t.op = opPlain
		s.point(t)
	}
	if m.locked || m.readers > 0 {
		return false
	}
	m.locked = true
	return true
}

func (m *MutexModel) Unlock() {
	if !m.locked {
		panic("sync: unlock of unlocked mutex")
	}
	m.locked = false
}

func (m *MutexModel) RLock() {
	s, t := cur()
	if s == nil {
		m.readers++
		return
	}
	t.op, t.mu = opRLock, m
	s.point(t)
	t.op = opNone
	m.readers++
}

func (m *MutexModel) RUnlock() { m.readers-- }

type OnceModel struct {
	done    bool
	running bool
}

func (o *OnceModel) Do(f func()) {
	s, t := cur()
	if s == nil {
		if !o.done {
			o.done = true
			f()
		}
		return
	}
	if o.done {
		return
	}
	t.op, t.once = opOnce, o
	s.point(t)
	t.op = opNone
	if o.done {
		return
	}
	o.running = true
	defer func() { o.running, o.done = false, true }()
	f()
}

type PoolModel struct {
	New        func() any
	items      []any
	registered bool
}

func (p *PoolModel) reg() {
	if !p.registered {
		p.registered = true
		allPools = append(allPools, p)
	}
}

func (p *PoolModel) Get() any {
	p.reg()
	s, t := cur()
	if s != nil {
		t.op = opPlain
		s.point(t)
		if len(p.items) > 0 && p.New != nil {
			// environment answer: recycled object (default) or a fresh one
			if s.chooser.Choose(2, false, "pool") == 1 {
				return p.New()
			}
		}
	}
	if n := len(p.items); n > 0 {
		v := p.items[n-1]
		p.items = p.items[:n-1]
		return v
	}
	if p.New != nil {
		return p.New()
	}
	return nil
}

func (p *PoolModel) Put(v any) {
	p.reg()
	s, t := cur()
	if s != nil {
		t.op = opPlain
		s.point(t)
	}
	p.items = append(p.items, v)
}

// AtomicPoint is the scheduling point before an atomic operation.
func AtomicPoint() {
	s, t := cur()
	if s == nil {
		return
	}
	t.op = opPlain
	s.point(t)
	s.log(t, "atomic", nil)
}

// Note lets harness code add to the event log.
func Note(what string) {
	s, t := cur()
	if s != nil {
		s.log(t, what, nil)
	}
}

// ThreadID of the running managed thread (-1 outside).
func ThreadID() int {
	_, t := cur()
	if t == nil {
		return -1
	}
	return t.id
}

// Snapshot of modelled state for state keys: per-channel buffered counts and per-thread
// operation counters.
func (s *Sched) Key(extra func(add func(uint64))) uint64 {
	h := uint64(1469598103934665603)
	add := func(v uint64) {
		h ^= v
		h *= 1099511628211
		h ^= h >> 29
	}
	for _, t := range s.threads {
		add(uint64(t.id))
		add(t.events)
		if t.done {
			add(0xdead)
		}
		add(uint64(t.op))
	}
	if extra != nil {
		extra(add)
	}
	return h
}

// CurrentKey hashes the modelled state of the running execution plus harness extras.
func CurrentKey(extra func(add func(uint64))) uint64 {
	s := active
	if s == nil {
		return 0
	}
	h := uint64(1469598103934665603)
	add := func(v uint64) {
		h ^= v
		h *= 1099511628211
		h ^= h >> 29
	}
	if s.cur != nil {
		add(uint64(s.cur.id) + 1000)
	}
	for _, t := range s.threads {
		add(uint64(t.id))
		add(t.events)
		if t.done {
			add(0xdead)
		}
		add(uint64(t.op))
		if t.handed {
			add(0xface)
		}
	}
	// channels in creation order
	ids := make([]*chanModel, s.nchan)
	for _, c := range s.chans {
		if c.id < len(ids) {
			ids[c.id] = c
		}
	}
	for _, c := range ids {
		if c == nil {
			continue
		}
		add(uint64(len(c.buf)))
		if c.closed {
			add(0xc105ed)
		}
	}
	if extra != nil {
		extra(add)
	}
	return h
}
