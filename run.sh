#!/bin/bash
# Entry point for every check:  ./run.sh <Cxx> [quick|thorough]   |  ./run.sh setup  |  ./run.sh replay <file>
# Rebuilds everything from the current working tree of /repo (or $VERIF_SRC) in a scratch
# directory that is removed on exit.
set -u
export GOFLAGS=-mod=mod GOPROXY=off GOSUMDB=off GOTOOLCHAIN=local
VERIF=$(cd "$(dirname "$0")" && pwd)
export VERIF_DIR=$VERIF
REPO=${VERIF_SRC:-/repo}
cmd=${1:-}
tier=${2:-${VERIF_TIER:-quick}}

SCRATCH=$(mktemp -d "${TMPDIR:-/tmp}/verif.XXXXXX") || exit 3
export VERIF_SCRATCH=$SCRATCH
trap 'rm -rf "$SCRATCH"' EXIT

die() { echo "HARNESS-ERROR $*"; exit 3; }

# copy_src <dstdir>: non-test sources of the package under test + white-box files
copy_src() {
  local d=$1
  mkdir -p "$d"
  for f in "$REPO"/*.go "$REPO"/*.s "$REPO"/*.h "$REPO"/go.mod "$REPO"/go.sum; do
    [ -e "$f" ] || continue
    case "$f" in *_test.go) continue;; esac
    cp "$f" "$d/"
  done
  cp "$VERIF"/inpkg/*.go "$d/" || die "cannot copy inpkg"
}

# make_harness_mod <dir> <simdjson-dir>
make_harness_mod() {
  local h=$1 s=$2
  mkdir -p "$h"
  cp "$VERIF"/harness/*.go "$h/"
  {
    echo "module vh"; echo; echo "go 1.22"; echo
    echo "require github.com/minio/simdjson-go v0.0.0"
    echo "require verif v0.0.0"
    # same third-party versions as the package under test
    awk '/^require \(/{inb=1;next} inb&&/^\)/{inb=0} inb{print "require " $1 " " $2} /^require [^(]/{print "require " $2 " " $3}' "$REPO/go.mod"
    echo "replace github.com/minio/simdjson-go => $s"
    echo "replace verif => $VERIF"
  } > "$h/go.mod"
  cp "$REPO/go.sum" "$h/go.sum"
}

build_plain() {
  copy_src "$SCRATCH/simdjson"
  make_harness_mod "$SCRATCH/h" "$SCRATCH/simdjson"
  (cd "$SCRATCH/h" && go build -o "$SCRATCH/vharness" . ) || die "harness build failed (does /repo compile?)"
}

# second binary built WITHOUT assembly support (for C11's asm/noasm clause)
build_noasm() {
  local n="$SCRATCH/n"
  mkdir -p "$n"
  cp "$VERIF/noasm/main.go" "$VERIF/harness/walk.go" "$n/"
  sed -e 's/^module vh$/module vn/' "$SCRATCH/h/go.mod" > "$n/go.mod"
  cp "$REPO/go.sum" "$n/go.sum"
  (cd "$n" && go build -tags noasm -o "$SCRATCH/noasmread" . ) || die "noasm reader build failed"
}

# instrumented build: the scratch copy is rewritten by cmd/vinstr to run under verif/vsched
build_sched() {
  copy_src "$SCRATCH/simdjson_i"
  (cd "$VERIF" && go build -o "$SCRATCH/vinstr" ./cmd/vinstr) || die "vinstr build failed"
  # run-time knob for ParseNDStream's 10 MiB chunk constant (C09); absent pattern = real constant only
  sed -i 's/^\tconst tmpSize = 10 << 20$/\ttmpSize := VerifTmpSize/' "$SCRATCH/simdjson_i/simdjson_amd64.go"
  "$SCRATCH/vinstr" "$SCRATCH/simdjson_i" > "$SCRATCH/vinstr.log" 2>&1 || { cat "$SCRATCH/vinstr.log"; die "instrumentation failed"; }
  (cd "$SCRATCH/simdjson_i" && go mod edit -require=verif@v0.0.0) || die "go mod edit failed"
  make_harness_mod "$SCRATCH/hs" "$SCRATCH/simdjson_i"
  cp "$VERIF"/hsched/*.go "$SCRATCH/hs/"
  (cd "$SCRATCH/hs" && go build -tags vsched_harness -o "$SCRATCH/vharness_i" . ) || die "instrumented harness build failed"
}

# the plain harness once more with the race detector (free-running pass for C20)
build_race() {
  [ -x "$SCRATCH/vharness" ] || build_plain
  (cd "$SCRATCH/h" && go build -race -o "$SCRATCH/vharness_race" . ) || die "race build failed"
}

src_id() {
  (cd "$REPO" && { git rev-parse --short HEAD 2>/dev/null; git status --porcelain 2>/dev/null | grep -v '^??' | sha256sum | cut -c1-8; } | tr '\n' '+' | sed 's/+$//')
}
export VERIF_SRC_ID=$(src_id)

case "$cmd" in
  setup)
    # build once to warm the Go build cache (plain, noasm, race variants are added as the checks need them)
    build_plain
    build_noasm
    build_sched
    build_race
    "$SCRATCH/vharness" selftest || die "oracle self-test failed"
    echo "setup ok"
    ;;
  replay)
    case "$(grep -o '"property": *"C[0-9]*S\?"' "$2" | grep -o 'C[0-9]*S\?')" in
      C07|C09|C20|C15S)
        build_sched
        GOMAXPROCS=1 "$SCRATCH/vharness_i" replay "$2"
        exit $?;;
    esac
    build_plain
    "$SCRATCH/vharness" replay "$2"
    exit $?
    ;;
  C20)
    build_sched
    build_race
    VERIF_RACE_BIN="$SCRATCH/vharness_race" GOMAXPROCS=${VERIF_GOMAXPROCS:-1} "$SCRATCH/vharness_i" "$cmd" "$tier"
    exit $?
    ;;
  C07|C09)
    build_sched
    GOMAXPROCS=${VERIF_GOMAXPROCS:-1} "$SCRATCH/vharness_i" "$cmd" "$tier"
    exit $?
    ;;
  C15)
    build_plain
    build_sched
    VERIF_SCHED_BIN="$SCRATCH/vharness_i" "$SCRATCH/vharness" "$cmd" "$tier"
    exit $?
    ;;
  C11)
    build_plain
    build_noasm
    VERIF_NOASM_BIN="$SCRATCH/noasmread" "$SCRATCH/vharness" "$cmd" "$tier"
    exit $?
    ;;
  C[0-9][0-9])
    build_plain
    "$SCRATCH/vharness" "$cmd" "$tier"
    exit $?
    ;;
  *)
    echo "usage: $0 <Cxx> [quick|thorough] | setup | replay <file>"; exit 3;;
esac
