package ref

import (
	"bytes"
	"math"
	"math/big"
	"unicode/utf8"
)

type Verdict uint8

const (
	Invalid Verdict = iota
	Valid
	OutOfClaim // lenient parse succeeded but only by using one of the exemptions C01 names
)

func (v Verdict) String() string {
	return [...]string{"invalid", "valid", "out-of-claim"}[v]
}

func isJSONWS(c byte) bool { return c == ' ' || c == '\t' || c == '\n' || c == '\r' }

// TrimJSONWS strips the four JSON white-space bytes from both edges.
func TrimJSONWS(b []byte) []byte {
	for len(b) > 0 && isJSONWS(b[0]) {
		b = b[1:]
	}
	for len(b) > 0 && isJSONWS(b[len(b)-1]) {
		b = b[:len(b)-1]
	}
	return b
}

type parser struct {
	b      []byte
	p      int
	exempt bool // an exemption was needed
	depth  int
}

// Parse decides a whole input for Parse (root must be object or array).
func Parse(in []byte) (*Node, Verdict) {
	t := TrimJSONWS(in)
	edge := false
	if t2 := bytes.TrimSpace(in); len(t2) != len(t) {
		// Non-JSON Unicode white space at the very edges: outside the claim.
		edge = true
		t = t2
	}
	ps := &parser{b: t}
	n, ok := ps.document()
	if !ok {
		if edge {
			return nil, OutOfClaim
		}
		return nil, Invalid
	}
	if ps.exempt || edge {
		return n, OutOfClaim
	}
	return n, Valid
}

func (ps *parser) document() (*Node, bool) {
	ps.ws()
	if ps.p >= len(ps.b) || (ps.b[ps.p] != '{' && ps.b[ps.p] != '[') {
		return nil, false
	}
	n, ok := ps.value()
	if !ok {
		return nil, false
	}
	ps.ws()
	if ps.p != len(ps.b) {
		return nil, false
	}
	return n, true
}

func (ps *parser) ws() {
	for ps.p < len(ps.b) && isJSONWS(ps.b[ps.p]) {
		ps.p++
	}
}

func (ps *parser) lit(s string) bool {
	if len(ps.b)-ps.p >= len(s) && string(ps.b[ps.p:ps.p+len(s)]) == s {
		ps.p += len(s)
		return true
	}
	return false
}

func (ps *parser) value() (*Node, bool) {
	if ps.p >= len(ps.b) {
		return nil, false
	}
	switch c := ps.b[ps.p]; {
	case c == '{':
		ps.p++
		n := &Node{K: KObj}
		ps.ws()
		if ps.p < len(ps.b) && ps.b[ps.p] == '}' {
			ps.p++
			return n, true
		}
		for {
			ps.ws()
			if ps.p >= len(ps.b) || ps.b[ps.p] != '"' {
				return nil, false
			}
			k, ok := ps.str()
			if !ok {
				return nil, false
			}
			ps.ws()
			if ps.p >= len(ps.b) || ps.b[ps.p] != ':' {
				return nil, false
			}
			ps.p++
			ps.ws()
			v, ok := ps.value()
			if !ok {
				return nil, false
			}
			n.Keys = append(n.Keys, k)
			n.Elems = append(n.Elems, v)
			ps.ws()
			if ps.p >= len(ps.b) {
				return nil, false
			}
			if ps.b[ps.p] == ',' {
				ps.p++
				continue
			}
			if ps.b[ps.p] == '}' {
				ps.p++
				return n, true
			}
			return nil, false
		}
	case c == '[':
		ps.p++
		n := &Node{K: KArr}
		ps.ws()
		if ps.p < len(ps.b) && ps.b[ps.p] == ']' {
			ps.p++
			return n, true
		}
		for {
			ps.ws()
			v, ok := ps.value()
			if !ok {
				return nil, false
			}
			n.Elems = append(n.Elems, v)
			ps.ws()
			if ps.p >= len(ps.b) {
				return nil, false
			}
			if ps.b[ps.p] == ',' {
				ps.p++
				continue
			}
			if ps.b[ps.p] == ']' {
				ps.p++
				return n, true
			}
			return nil, false
		}
	case c == '"':
		s, ok := ps.str()
		if !ok {
			return nil, false
		}
		return &Node{K: KStr, S: s}, true
	case c == 't':
		if ps.lit("true") {
			return &Node{K: KTrue}, true
		}
		return nil, false
	case c == 'f':
		if ps.lit("false") {
			return &Node{K: KFalse}, true
		}
		return nil, false
	case c == 'n':
		if ps.lit("null") {
			return &Node{K: KNull}, true
		}
		return nil, false
	case c == '-' || (c >= '0' && c <= '9'):
		start := ps.p
		if !ps.number() {
			return nil, false
		}
		n, ok := ClassifyNumber(ps.b[start:ps.p])
		if !ok {
			return nil, false // not finite
		}
		return n, true
	}
	return nil, false
}

func isDigit(c byte) bool { return c >= '0' && c <= '9' }

// number advances over one RFC 8259 number literal.
func (ps *parser) number() bool {
	b, p := ps.b, ps.p
	if p < len(b) && b[p] == '-' {
		p++
	}
	if p >= len(b) || !isDigit(b[p]) {
		return false
	}
	if b[p] == '0' {
		p++
	} else {
		for p < len(b) && isDigit(b[p]) {
			p++
		}
	}
	if p < len(b) && b[p] == '.' {
		p++
		if p >= len(b) || !isDigit(b[p]) {
			return false
		}
		for p < len(b) && isDigit(b[p]) {
			p++
		}
	}
	if p < len(b) && (b[p] == 'e' || b[p] == 'E') {
		p++
		if p < len(b) && (b[p] == '+' || b[p] == '-') {
			p++
		}
		if p >= len(b) || !isDigit(b[p]) {
			return false
		}
		for p < len(b) && isDigit(b[p]) {
			p++
		}
	}
	ps.p = p
	return true
}

// IsNumberLiteral reports whether b as a whole matches the JSON number grammar.
func IsNumberLiteral(b []byte) bool {
	ps := &parser{b: b}
	return ps.number() && ps.p == len(b)
}

func hexv(c byte) int {
	switch {
	case c >= '0' && c <= '9':
		return int(c - '0')
	case c >= 'a' && c <= 'f':
		return int(c-'a') + 10
	case c >= 'A' && c <= 'F':
		return int(c-'A') + 10
	}
	return -1
}

func (ps *parser) hex4() (int, bool) {
	if ps.p+4 > len(ps.b) {
		return 0, false
	}
	v := 0
	for i := 0; i < 4; i++ {
		h := hexv(ps.b[ps.p+i])
		if h < 0 {
			return 0, false
		}
		v = v<<4 | h
	}
	ps.p += 4
	return v, true
}

// str parses a string starting at the opening quote and returns the unescaped bytes.
func (ps *parser) str() ([]byte, bool) {
	b := ps.b
	ps.p++ // opening quote
	out := []byte{}
	for {
		if ps.p >= len(b) {
			return nil, false
		}
		c := b[ps.p]
		switch {
		case c == '"':
			ps.p++
			return out, true
		case c < 0x20:
			return nil, false
		case c == '\\':
			ps.p++
			if ps.p >= len(b) {
				return nil, false
			}
			e := b[ps.p]
			ps.p++
			switch e {
			case '"':
				out = append(out, '"')
			case '\\':
				out = append(out, '\\')
			case '/':
				out = append(out, '/')
			case 'b':
				out = append(out, '\b')
			case 'f':
				out = append(out, '\f')
			case 'n':
				out = append(out, '\n')
			case 'r':
				out = append(out, '\r')
			case 't':
				out = append(out, '\t')
			case 'u':
				u, ok := ps.hex4()
				if !ok {
					return nil, false
				}
				switch {
				case u >= 0xD800 && u < 0xDC00:
					// needs a low surrogate right behind it
					if ps.p+6 <= len(b) && b[ps.p] == '\\' && b[ps.p+1] == 'u' {
						save := ps.p
						ps.p += 2
						lo, ok := ps.hex4()
						if !ok {
							return nil, false // bad hex is invalid regardless of surrogates
						}
						if lo >= 0xDC00 && lo < 0xE000 {
							r := rune(0x10000 + (u-0xD800)<<10 + (lo - 0xDC00))
							out = utf8.AppendRune(out, r)
						} else {
							// ill-formed pair: outside the claim; keep scanning leniently
							ps.exempt = true
							ps.p = save
						}
					} else {
						ps.exempt = true
					}
				case u >= 0xDC00 && u < 0xE000:
					ps.exempt = true
				default:
					out = utf8.AppendRune(out, rune(u))
				}
			default:
				return nil, false
			}
		case c < 0x80:
			out = append(out, c)
			ps.p++
		default:
			r, sz := utf8.DecodeRune(b[ps.p:])
			if r == utf8.RuneError && sz <= 1 {
				ps.exempt = true
				sz = 1
			}
			out = append(out, b[ps.p:ps.p+sz]...)
			ps.p += sz
		}
	}
}

var (
	bigMaxU64 = new(big.Int).SetUint64(math.MaxUint64)
	bigMinI64 = big.NewInt(math.MinInt64)
	bigMaxI64 = big.NewInt(math.MaxInt64)
	ten       = big.NewInt(10)
)

// ClassifyNumber gives the documented type and exact value of a number literal that
// matches the grammar. ok=false when the value is not finite in float64.
func ClassifyNumber(lit []byte) (*Node, bool) {
	neg := false
	s := lit
	if len(s) > 0 && s[0] == '-' {
		neg = true
		s = s[1:]
	}
	pure := true
	for _, c := range s {
		if !isDigit(c) {
			pure = false
			break
		}
	}
	if pure {
		v, _ := new(big.Int).SetString(string(s), 10)
		if neg {
			v.Neg(v)
		}
		if v.Cmp(bigMinI64) >= 0 && v.Cmp(bigMaxI64) <= 0 {
			return &Node{K: KInt, I: v.Int64()}, true
		}
		if v.Sign() > 0 && v.Cmp(bigMaxU64) <= 0 {
			return &Node{K: KUint, U: v.Uint64()}, true
		}
		f, _ := new(big.Rat).SetInt(v).Float64()
		if math.IsInf(f, 0) {
			return nil, false
		}
		return &Node{K: KFloat, F: f, Flag: true}, true
	}
	f, ok := exactFloat(s)
	if !ok {
		return nil, false
	}
	if neg {
		f = -f
	}
	return &Node{K: KFloat, F: f}, true
}

// exactFloat converts an unsigned decimal literal with fraction and/or exponent to the
// correctly rounded float64 using exact rational arithmetic.
func exactFloat(s []byte) (float64, bool) {
	mant := make([]byte, 0, len(s))
	exp := 0
	i := 0
	for i < len(s) && isDigit(s[i]) {
		mant = append(mant, s[i])
		i++
	}
	if i < len(s) && s[i] == '.' {
		i++
		for i < len(s) && isDigit(s[i]) {
			mant = append(mant, s[i])
			exp--
			i++
		}
	}
	if i < len(s) && (s[i] == 'e' || s[i] == 'E') {
		i++
		eneg := false
		if s[i] == '+' {
			i++
		} else if s[i] == '-' {
			eneg = true
			i++
		}
		e := 0
		for i < len(s) {
			if e < 100000000 {
				e = e*10 + int(s[i]-'0')
			}
			i++
		}
		if eneg {
			e = -e
		}
		exp += e
	}
	// strip leading zeros of mantissa
	j := 0
	for j < len(mant)-1 && mant[j] == '0' {
		j++
	}
	mant = mant[j:]
	m, _ := new(big.Int).SetString(string(mant), 10)
	if m.Sign() == 0 {
		return 0, true
	}
	mag := len(mant) + exp // value < 10^mag, >= 10^(mag-1)
	if mag > 320 {
		return 0, false
	}
	if mag < -340 {
		return 0, true
	}
	var r big.Rat
	if exp >= 0 {
		p := new(big.Int).Exp(ten, big.NewInt(int64(exp)), nil)
		r.SetInt(m.Mul(m, p))
	} else {
		p := new(big.Int).Exp(ten, big.NewInt(int64(-exp)), nil)
		r.SetFrac(m, p)
	}
	f, _ := r.Float64()
	if math.IsInf(f, 0) {
		return 0, false
	}
	return f, true
}

// ParseND is the NDJSON model: lines split at LF, lines that are all JSON white space
// dropped, each remaining line must be a valid document. Result: one node per document.
func ParseND(in []byte) ([]*Node, Verdict) {
	t := TrimJSONWS(in)
	edge := false
	if t2 := bytes.TrimSpace(in); len(t2) != len(t) {
		edge = true
		t = t2
	}
	var docs []*Node
	exempt := edge
	for _, line := range bytes.Split(t, []byte{'\n'}) {
		l := TrimJSONWS(line)
		if len(l) == 0 {
			continue
		}
		ps := &parser{b: l}
		n, ok := ps.document()
		if !ok {
			if edge {
				return nil, OutOfClaim
			}
			return nil, Invalid
		}
		if ps.exempt {
			exempt = true
		}
		docs = append(docs, n)
	}
	if len(docs) == 0 {
		// no document at all: "every non-blank line is accepted" holds vacuously while the
		// implementation reports an error; treated as outside the claim.
		return nil, OutOfClaim
	}
	if exempt {
		return docs, OutOfClaim
	}
	return docs, Valid
}
