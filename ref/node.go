// Package ref holds the boring reference models the checks compare the real code with.
package ref

import (
	"fmt"
	"math"
	"math/big"
	"strconv"
	"strings"
	"unicode/utf8"
)

type Kind uint8

const (
	KNull Kind = iota
	KTrue
	KFalse
	KStr
	KInt
	KUint
	KFloat
	KArr
	KObj
)

// Node is an ordered abstract JSON value. Objects keep members in source order,
// duplicates included.
type Node struct {
	K     Kind
	S     []byte // KStr: unescaped bytes
	I     int64
	U     uint64
	F     float64
	Flag  bool     // KFloat: integer literal that overflowed both int64 and uint64
	Keys  [][]byte // KObj
	Elems []*Node  // KArr, KObj
}

func Null() *Node { return &Node{K: KNull} }
func Bool(b bool) *Node {
	if b {
		return &Node{K: KTrue}
	}
	return &Node{K: KFalse}
}
func Str(s string) *Node    { return &Node{K: KStr, S: []byte(s)} }
func Int(i int64) *Node     { return &Node{K: KInt, I: i} }
func Uint(u uint64) *Node   { return &Node{K: KUint, U: u} }
func Float(f float64) *Node { return &Node{K: KFloat, F: f} }
func Arr(e ...*Node) *Node  { return &Node{K: KArr, Elems: e} }

// Render gives a canonical, type-exact text for a node (numbers carry their type and
// exact bits), used to compare trees and to print counterexamples.
func (n *Node) Render() string {
	var sb strings.Builder
	n.render(&sb)
	return sb.String()
}

func (n *Node) render(sb *strings.Builder) {
	if n == nil {
		sb.WriteString("<nil>")
		return
	}
	switch n.K {
	case KNull:
		sb.WriteString("null")
	case KTrue:
		sb.WriteString("true")
	case KFalse:
		sb.WriteString("false")
	case KStr:
		sb.WriteString(strconv.Quote(string(n.S)))
	case KInt:
		sb.WriteString("i")
		sb.WriteString(strconv.FormatInt(n.I, 10))
	case KUint:
		sb.WriteString("u")
		sb.WriteString(strconv.FormatUint(n.U, 10))
	case KFloat:
		sb.WriteString("f")
		sb.WriteString(strconv.FormatUint(math.Float64bits(n.F), 16))
		if n.Flag {
			sb.WriteString("!")
		}
	case KArr:
		sb.WriteByte('[')
		for i, e := range n.Elems {
			if i > 0 {
				sb.WriteByte(',')
			}
			e.render(sb)
		}
		sb.WriteByte(']')
	case KObj:
		sb.WriteByte('{')
		for i, e := range n.Elems {
			if i > 0 {
				sb.WriteByte(',')
			}
			sb.WriteString(strconv.Quote(string(n.Keys[i])))
			sb.WriteByte(':')
			e.render(sb)
		}
		sb.WriteByte('}')
	}
}

// RenderLoose is Render with numbers reduced to their numeric value where the API under
// comparison does not expose flags (float flag dropped).
func (n *Node) RenderLoose() string {
	c := n.Clone()
	c.walk(func(x *Node) { x.Flag = false })
	return c.Render()
}

func (n *Node) walk(f func(*Node)) {
	f(n)
	for _, e := range n.Elems {
		e.walk(f)
	}
}

// Walk visits every node, parents first.
func (n *Node) Walk(f func(*Node)) { n.walk(f) }

func (n *Node) Clone() *Node {
	if n == nil {
		return nil
	}
	c := *n
	c.S = append([]byte(nil), n.S...)
	if n.Keys != nil {
		c.Keys = make([][]byte, len(n.Keys))
		for i, k := range n.Keys {
			c.Keys[i] = append([]byte(nil), k...)
		}
	}
	if n.Elems != nil {
		c.Elems = make([]*Node, len(n.Elems))
		for i, e := range n.Elems {
			c.Elems[i] = e.Clone()
		}
	}
	return &c
}

// LastWins collapses duplicate keys the way a Go map does (last value wins) and sorts
// nothing: the result is compared through RenderSorted.
func (n *Node) RenderSorted() string {
	var sb strings.Builder
	n.renderSorted(&sb)
	return sb.String()
}

func (n *Node) renderSorted(sb *strings.Builder) {
	switch n.K {
	case KArr:
		sb.WriteByte('[')
		for i, e := range n.Elems {
			if i > 0 {
				sb.WriteByte(',')
			}
			e.renderSorted(sb)
		}
		sb.WriteByte(']')
	case KObj:
		last := map[string]int{}
		var order []string
		for i, k := range n.Keys {
			if _, ok := last[string(k)]; !ok {
				order = append(order, string(k))
			}
			last[string(k)] = i
		}
		// insertion sort, tiny
		for i := 1; i < len(order); i++ {
			for j := i; j > 0 && order[j] < order[j-1]; j-- {
				order[j], order[j-1] = order[j-1], order[j]
			}
		}
		sb.WriteByte('{')
		for i, k := range order {
			if i > 0 {
				sb.WriteByte(',')
			}
			sb.WriteString(strconv.Quote(k))
			sb.WriteByte(':')
			n.Elems[last[k]].renderSorted(sb)
		}
		sb.WriteByte('}')
	default:
		n.render(sb)
	}
}

// JSON renders the node as compact JSON text (numbers from their typed value, floats by
// strconv shortest formatting; only used to build inputs, never as an oracle).
func (n *Node) JSON() string {
	var sb strings.Builder
	n.json(&sb)
	return sb.String()
}

func QuoteJSON(s []byte) string {
	var sb strings.Builder
	sb.WriteByte('"')
	for _, c := range s {
		switch {
		case c == '"':
			sb.WriteString(`\"`)
		case c == '\\':
			sb.WriteString(`\\`)
		case c == '\n':
			sb.WriteString(`\n`)
		case c == '\r':
			sb.WriteString(`\r`)
		case c == '\t':
			sb.WriteString(`\t`)
		case c < 0x20:
			sb.WriteString(`\u00`)
			sb.WriteByte("0123456789abcdef"[c>>4])
			sb.WriteByte("0123456789abcdef"[c&15])
		default:
			sb.WriteByte(c)
		}
	}
	sb.WriteByte('"')
	return sb.String()
}

func (n *Node) json(sb *strings.Builder) {
	switch n.K {
	case KNull:
		sb.WriteString("null")
	case KTrue:
		sb.WriteString("true")
	case KFalse:
		sb.WriteString("false")
	case KStr:
		sb.WriteString(QuoteJSON(n.S))
	case KInt:
		sb.WriteString(strconv.FormatInt(n.I, 10))
	case KUint:
		sb.WriteString(strconv.FormatUint(n.U, 10))
	case KFloat:
		s := strconv.FormatFloat(n.F, 'g', -1, 64)
		if !strings.ContainsAny(s, ".e") {
			s += ".0"
		}
		sb.WriteString(s)
	case KArr:
		sb.WriteByte('[')
		for i, e := range n.Elems {
			if i > 0 {
				sb.WriteByte(',')
			}
			e.json(sb)
		}
		sb.WriteByte(']')
	case KObj:
		sb.WriteByte('{')
		for i, e := range n.Elems {
			if i > 0 {
				sb.WriteByte(',')
			}
			sb.WriteString(QuoteJSON(n.Keys[i]))
			sb.WriteByte(':')
			e.json(sb)
		}
		sb.WriteByte('}')
	}
}

// RenderLooseSorted: float flags dropped, duplicate keys collapsed last-wins, keys sorted —
// what a map-based API can expose.
func (n *Node) RenderLooseSorted() string {
	c := n.Clone()
	c.walk(func(x *Node) { x.Flag = false })
	return c.RenderSorted()
}

// RenderNumeric keeps structure, order and strings but reduces every number to its exact
// rational value, so 1, 1.0 and 1e0 compare equal ("numerically equal").
func (n *Node) RenderNumeric() string {
	var sb strings.Builder
	n.renderNumeric(&sb)
	return sb.String()
}

func (n *Node) renderNumeric(sb *strings.Builder) {
	switch n.K {
	case KInt:
		sb.WriteString("#" + new(big.Rat).SetInt64(n.I).String())
	case KUint:
		sb.WriteString("#" + new(big.Rat).SetInt(new(big.Int).SetUint64(n.U)).String())
	case KFloat:
		r := new(big.Rat)
		if r.SetFloat64(n.F) == nil {
			sb.WriteString("#nonfinite")
		} else {
			sb.WriteString("#" + r.String())
		}
	case KArr:
		sb.WriteByte('[')
		for i, e := range n.Elems {
			if i > 0 {
				sb.WriteByte(',')
			}
			e.renderNumeric(sb)
		}
		sb.WriteByte(']')
	case KObj:
		sb.WriteByte('{')
		for i, e := range n.Elems {
			if i > 0 {
				sb.WriteByte(',')
			}
			sb.WriteString(strconv.Quote(string(n.Keys[i])))
			sb.WriteByte(':')
			e.renderNumeric(sb)
		}
		sb.WriteByte('}')
	default:
		n.render(sb)
	}
}

// QuoteJSONEscaped renders a string literal with every byte sequence that is valid UTF-8
// and not printable ASCII written as \uXXXX escapes (surrogate pairs above U+FFFF).
func QuoteJSONEscaped(s []byte) string {
	var sb strings.Builder
	sb.WriteByte('"')
	for i := 0; i < len(s); {
		c := s[i]
		switch {
		case c == '"':
			sb.WriteString(`\"`)
			i++
		case c == '\\':
			sb.WriteString(`\\`)
			i++
		case c >= 0x20 && c < 0x7f:
			sb.WriteByte(c)
			i++
		default:
			r, sz := utf8.DecodeRune(s[i:])
			if r == utf8.RuneError && sz <= 1 {
				sb.WriteByte(c)
				i++
				continue
			}
			if r > 0xffff {
				r -= 0x10000
				fmt.Fprintf(&sb, "\\u%04x\\u%04X", 0xd800+(r>>10), 0xdc00+(r&0x3ff))
			} else {
				fmt.Fprintf(&sb, "\\u%04X", r)
			}
			i += sz
		}
	}
	sb.WriteByte('"')
	return sb.String()
}

// NumericEqual compares two trees for C10's "same document, numerically equal numbers":
// structure, order, keys and strings must be identical; an integer-typed number must be
// matched exactly; a float64-typed number must be matched by a number that rounds to the
// same float64 (the marshaller prints the shortest decimal that identifies the float, e.g.
// 2^62 as 4611686018427388000, which read as an exact integer is a different number but
// denotes the same float64).
func NumericEqual(want, got *Node) bool {
	if want == nil || got == nil {
		return want == got
	}
	isNum := func(n *Node) bool { return n.K == KInt || n.K == KUint || n.K == KFloat }
	if isNum(want) && isNum(got) {
		if want.K == KFloat || got.K == KFloat {
			return toFloat(want) == toFloat(got) || (toFloat(want) != toFloat(want) && toFloat(got) != toFloat(got))
		}
		return exactRat(want).Cmp(exactRat(got)) == 0
	}
	if want.K != got.K || len(want.Elems) != len(got.Elems) || string(want.S) != string(got.S) {
		return false
	}
	for i := range want.Elems {
		if want.K == KObj && string(want.Keys[i]) != string(got.Keys[i]) {
			return false
		}
		if !NumericEqual(want.Elems[i], got.Elems[i]) {
			return false
		}
	}
	return true
}

func exactRat(n *Node) *big.Rat {
	switch n.K {
	case KInt:
		return new(big.Rat).SetInt64(n.I)
	case KUint:
		return new(big.Rat).SetInt(new(big.Int).SetUint64(n.U))
	}
	r := new(big.Rat)
	r.SetFloat64(n.F)
	return r
}

func toFloat(n *Node) float64 {
	if n.K == KFloat {
		return n.F
	}
	f, _ := exactRat(n).Float64()
	return f
}

// NumericEqualDocs applies NumericEqual root by root.
func NumericEqualDocs(want, got []*Node) bool {
	if len(want) != len(got) {
		return false
	}
	for i := range want {
		if !NumericEqual(want[i], got[i]) {
			return false
		}
	}
	return true
}
