package ref

import "fmt"

const (
	tagShift     = 56
	valueMask    = 0xff_ffff_ffff_ffff
	stringBufBit = 0x80_0000_0000_0000
	stringMask   = 0x7f_ffff_ffff_ffff
)

// TapeOpts selects which rules apply.
type TapeOpts struct {
	AllowNop  bool // NOP entries may occur (deserialized / edited tapes)
	StrictNop bool // every NOP's skip must land exactly on the next non-NOP entry (or tape end)
	// NopNoOvershoot: every NOP's skip jumps over NOP entries only (it may land on the head of
	// an adjacent gap, as two deletions next to each other leave it)
	NopNoOvershoot bool
}

// CheckTape verifies the documented tape format. It returns nil or the first violated rule.
func CheckTape(tape []uint64, nStrings, nMessage int, o TapeOpts) error {
	if len(tape) < 2 {
		return fmt.Errorf("tape shorter than one root pair (%d)", len(tape))
	}
	type frame struct {
		tag     byte
		start   int
		needKey bool
	}
	var stack []frame
	pos := 0
	n := len(tape)
	afterValue := func() {
		if len(stack) > 0 && stack[len(stack)-1].tag == '{' {
			f := &stack[len(stack)-1]
			f.needKey = !f.needKey
		}
	}
	rootHasValue := false
	for pos < n {
		e := tape[pos]
		tag := byte(e >> tagShift)
		payload := e & valueMask
		inObjKey := len(stack) > 0 && stack[len(stack)-1].tag == '{' && stack[len(stack)-1].needKey
		if inObjKey && tag != '"' && tag != '}' && tag != 'N' {
			return fmt.Errorf("entry %d: object member does not start with a string key (tag %q)", pos, tag)
		}
		if len(stack) == 0 && tag != 'r' && tag != 'N' {
			return fmt.Errorf("entry %d: tag %q outside any root", pos, tag)
		}
		if len(stack) == 1 && stack[0].tag == 'r' && tag != 'r' && tag != 'N' {
			if rootHasValue {
				return fmt.Errorf("entry %d: second value inside one root", pos)
			}
			rootHasValue = true
		}
		switch tag {
		case 'r':
			if len(stack) == 0 {
				// opening root: payload = index of closing root + 1
				if payload < 2 || payload > uint64(n) {
					return fmt.Errorf("entry %d: opening root points to %d, tape length %d", pos, payload, n)
				}
				c := tape[payload-1]
				if byte(c>>tagShift) != 'r' || c&valueMask != uint64(pos) {
					return fmt.Errorf("entry %d: opening root points one past %d, which is not its closing root (%q -> %d)", pos, payload-1, byte(c>>tagShift), c&valueMask)
				}
				stack = append(stack, frame{tag: 'r', start: pos})
				rootHasValue = false
			} else {
				f := stack[len(stack)-1]
				if f.tag != 'r' || len(stack) != 1 {
					return fmt.Errorf("entry %d: root tag inside an open %q", pos, f.tag)
				}
				if payload != uint64(f.start) {
					return fmt.Errorf("entry %d: closing root points to %d, its opening root is at %d", pos, payload, f.start)
				}
				if tape[f.start]&valueMask != uint64(pos+1) {
					return fmt.Errorf("entry %d: opening root at %d points to %d, expected %d", pos, f.start, tape[f.start]&valueMask, pos+1)
				}
				if !rootHasValue {
					return fmt.Errorf("entry %d: root pair without a value", pos)
				}
				stack = stack[:0]
			}
			pos++
		case '{', '[':
			closeTag := byte('}')
			if tag == '[' {
				closeTag = ']'
			}
			if payload <= uint64(pos) || payload > uint64(n) {
				return fmt.Errorf("entry %d: %q points to %d (tape length %d)", pos, tag, payload, n)
			}
			c := tape[payload-1]
			if byte(c>>tagShift) != closeTag || c&valueMask != uint64(pos) {
				return fmt.Errorf("entry %d: %q points one past %d which holds %q -> %d", pos, tag, payload-1, byte(c>>tagShift), c&valueMask)
			}
			stack = append(stack, frame{tag: tag, start: pos, needKey: tag == '{'})
			pos++
		case '}', ']':
			if len(stack) == 0 {
				return fmt.Errorf("entry %d: %q without open scope", pos, tag)
			}
			f := stack[len(stack)-1]
			want := byte('{')
			if tag == ']' {
				want = '['
			}
			if f.tag != want {
				return fmt.Errorf("entry %d: %q closes %q", pos, tag, f.tag)
			}
			if tag == '}' && !f.needKey {
				return fmt.Errorf("entry %d: object closed after a key without value", pos)
			}
			if payload != uint64(f.start) {
				return fmt.Errorf("entry %d: %q points back to %d, scope started at %d", pos, tag, payload, f.start)
			}
			if tape[f.start]&valueMask != uint64(pos+1) {
				return fmt.Errorf("entry %d: start at %d points to %d, expected %d", pos, f.start, tape[f.start]&valueMask, pos+1)
			}
			stack = stack[:len(stack)-1]
			afterValue()
			pos++
		case '"':
			if pos+1 >= n {
				return fmt.Errorf("entry %d: string without length word", pos)
			}
			l := tape[pos+1]
			if payload&stringBufBit != 0 {
				off := payload & stringMask
				if off+l > uint64(nStrings) || off+l < off {
					return fmt.Errorf("entry %d: string [%d,+%d) outside string buffer (%d)", pos, off, l, nStrings)
				}
			} else {
				if payload+l > uint64(nMessage) || payload+l < payload {
					return fmt.Errorf("entry %d: string [%d,+%d) outside message (%d)", pos, payload, l, nMessage)
				}
			}
			afterValue()
			pos += 2
		case 'l', 'u', 'd':
			if pos+1 >= n {
				return fmt.Errorf("entry %d: number %q without payload word", pos, tag)
			}
			if tag == 'd' && payload&^1 != 0 {
				return fmt.Errorf("entry %d: undefined float flag bits %x", pos, payload)
			}
			if tag != 'd' && payload != 0 && false {
				return fmt.Errorf("entry %d: integer tag with embedded payload", pos)
			}
			afterValue()
			pos += 2
		case 't', 'f', 'n':
			afterValue()
			pos++
		case 'N':
			if !o.AllowNop {
				return fmt.Errorf("entry %d: NOP tag on a tape that was never edited", pos)
			}
			if payload < 1 || uint64(pos)+payload > uint64(n) {
				return fmt.Errorf("entry %d: NOP skip %d leaves the tape (%d)", pos, payload, n)
			}
			if o.StrictNop || o.NopNoOvershoot {
				end := pos + int(payload)
				for j := pos + 1; j < end; j++ {
					if byte(tape[j]>>tagShift) != 'N' {
						return fmt.Errorf("entry %d: NOP skip %d jumps over live entry %d", pos, payload, j)
					}
				}
				if o.StrictNop && end < n && byte(tape[end]>>tagShift) == 'N' {
					return fmt.Errorf("entry %d: NOP skip %d lands on another NOP at %d, not on the next live entry", pos, payload, end)
				}
			}
			pos++
		default:
			return fmt.Errorf("entry %d: unknown tag %q (0x%02x)", pos, tag, tag)
		}
	}
	if len(stack) != 0 {
		return fmt.Errorf("tape ends inside an open %q started at %d", stack[len(stack)-1].tag, stack[len(stack)-1].start)
	}
	return nil
}
