// Command vinstr rewrites the concurrency syntax of a Go package (in place, in a scratch
// copy) so that it runs under verif/vsched: go statements, channel send/receive/range/
// select/close, package sync and sync/atomic, runtime.GOMAXPROCS(0).
//
// usage: vinstr <dir>
package main

import (
	"bytes"
	"fmt"
	"go/ast"
	"go/format"
	"go/importer"
	"go/parser"
	"go/token"
	"go/types"
	"os"
	"path/filepath"
	"reflect"
	"strconv"
	"strings"
)

type lenientImporter struct {
	src   types.Importer
	fakes map[string]*types.Package
}

func (l *lenientImporter) Import(path string) (*types.Package, error) {
	if !strings.Contains(strings.Split(path, "/")[0], ".") {
		if p, err := l.src.Import(path); err == nil {
			return p, nil
		}
	}
	if p, ok := l.fakes[path]; ok {
		return p, nil
	}
	name := path[strings.LastIndex(path, "/")+1:]
	if strings.HasPrefix(name, "v") && len(name) <= 3 {
		parts := strings.Split(path, "/")
		if len(parts) >= 2 {
			name = parts[len(parts)-2]
		}
	}
	p := types.NewPackage(path, name)
	p.MarkComplete()
	l.fakes[path] = p
	return p, nil
}

type rw struct {
	fset     *token.FileSet
	info     *types.Info
	used     bool // vsched referenced in this file
	tmp      int
	errs     []string
	counts   map[string]int
	fileName string
}

func (r *rw) errf(pos token.Pos, f string, a ...any) {
	r.errs = append(r.errs, fmt.Sprintf("%s: %s", r.fset.Position(pos), fmt.Sprintf(f, a...)))
}

func sel(pkg, name string) ast.Expr {
	return &ast.SelectorExpr{X: ast.NewIdent(pkg), Sel: ast.NewIdent(name)}
}

func (r *rw) call(name string, args ...ast.Expr) *ast.CallExpr {
	r.used = true
	r.counts[name]++
	return &ast.CallExpr{Fun: sel("vsched", name), Args: args}
}

func (r *rw) newTmp(prefix string) *ast.Ident {
	r.tmp++
	return ast.NewIdent(fmt.Sprintf("__v%s%d", prefix, r.tmp))
}

func (r *rw) isChan(e ast.Expr) (bool, bool) {
	tv, ok := r.info.Types[e]
	if !ok || tv.Type == nil {
		return false, false
	}
	if b, ok := tv.Type.Underlying().(*types.Basic); ok && b.Kind() == types.Invalid {
		return false, false
	}
	_, isc := tv.Type.Underlying().(*types.Chan)
	return isc, true
}

var skipTypes = map[reflect.Type]bool{
	reflect.TypeOf((*ast.Object)(nil)): true,
	reflect.TypeOf((*ast.Scope)(nil)):  true,
}

// visit walks v (any AST value), rewriting nodes held in interface-typed slots.
func (r *rw) visit(v reflect.Value) {
	switch v.Kind() {
	case reflect.Ptr:
		if v.IsNil() || skipTypes[v.Type()] {
			return
		}
		r.visit(v.Elem())
	case reflect.Interface:
		if v.IsNil() {
			return
		}
		n, ok := v.Interface().(ast.Node)
		if !ok {
			return
		}
		if rep := r.pre(n); rep != nil {
			if v.CanSet() {
				v.Set(reflect.ValueOf(rep))
			}
			return
		}
		r.visit(reflect.ValueOf(n))
		if rep := r.post(n); rep != nil && v.CanSet() {
			v.Set(reflect.ValueOf(rep))
		}
	case reflect.Slice:
		for i := 0; i < v.Len(); i++ {
			r.visit(v.Index(i))
		}
	case reflect.Struct:
		for i := 0; i < v.NumField(); i++ {
			f := v.Field(i)
			if f.CanSet() || f.Kind() == reflect.Slice || f.Kind() == reflect.Ptr || f.Kind() == reflect.Interface {
				r.visit(f)
			}
		}
	}
}

func (r *rw) visitExpr(e *ast.Expr) { r.visit(reflect.ValueOf(e).Elem()) }
func (r *rw) visitStmts(l []ast.Stmt) {
	r.visit(reflect.ValueOf(l))
}

// pre handles constructs that must be rewritten before their children are visited.
func (r *rw) pre(n ast.Node) ast.Node {
	switch x := n.(type) {
	case *ast.SelectStmt:
		return r.rewriteSelect(x)
	case *ast.AssignStmt:
		// v, ok := <-ch   /   v, ok = <-ch
		if len(x.Lhs) == 2 && len(x.Rhs) == 1 {
			if u, ok := x.Rhs[0].(*ast.UnaryExpr); ok && u.Op == token.ARROW {
				r.visitExpr(&u.X)
				for i := range x.Lhs {
					r.visitExpr(&x.Lhs[i])
				}
				x.Rhs[0] = r.call("Recv2", u.X)
				return x
			}
		}
	case *ast.ValueSpec:
		if len(x.Names) == 2 && len(x.Values) == 1 {
			if u, ok := x.Values[0].(*ast.UnaryExpr); ok && u.Op == token.ARROW {
				r.visitExpr(&u.X)
				x.Values[0] = r.call("Recv2", u.X)
				return x
			}
		}
	case *ast.RangeStmt:
		isc, known := r.isChan(x.X)
		if !known {
			r.errf(x.Pos(), "cannot type the operand of this range statement; refusing to guess whether it is a channel")
			return nil
		}
		if !isc {
			return nil
		}
		// for { k, ok := Recv2(ch); if !ok { break }; body }
		r.visitExpr(&x.X)
		r.visit(reflect.ValueOf(x.Body))
		okv := r.newTmp("ok")
		var key ast.Expr = ast.NewIdent("_")
		tok := token.DEFINE
		if x.Key != nil {
			key = x.Key
			if x.Tok == token.ASSIGN {
				// ok must be declared separately
				tok = token.ASSIGN
			}
		}
		var stmts []ast.Stmt
		if tok == token.ASSIGN {
			stmts = append(stmts, &ast.DeclStmt{Decl: &ast.GenDecl{Tok: token.VAR, Specs: []ast.Spec{&ast.ValueSpec{Names: []*ast.Ident{okv}, Type: ast.NewIdent("bool")}}}})
		}
		stmts = append(stmts,
			&ast.AssignStmt{Lhs: []ast.Expr{key, okv}, Tok: tok, Rhs: []ast.Expr{r.call("Recv2", x.X)}},
			&ast.IfStmt{Cond: &ast.UnaryExpr{Op: token.NOT, X: okv}, Body: &ast.BlockStmt{List: []ast.Stmt{&ast.BranchStmt{Tok: token.BREAK}}}},
		)
		stmts = append(stmts, x.Body.List...)
		r.counts["range-chan"]++
		return &ast.ForStmt{For: x.For, Body: &ast.BlockStmt{List: stmts}}
	}
	return nil
}

// post rewrites simple constructs after their children.
func (r *rw) post(n ast.Node) ast.Node {
	switch x := n.(type) {
	case *ast.DeferStmt:
		// the call sits in a pointer-typed slot: apply in-place rewrites (close, GOMAXPROCS)
		r.post(x.Call)
		return nil
	case *ast.GoStmt:
		r.post(x.Call)
		return r.rewriteGo(x)
	case *ast.SendStmt:
		return &ast.ExprStmt{X: r.call("Send", x.Chan, x.Value)}
	case *ast.UnaryExpr:
		if x.Op == token.ARROW {
			return r.call("Recv", x.X)
		}
	case *ast.CallExpr:
		if id, ok := x.Fun.(*ast.Ident); ok && id.Name == "close" && len(x.Args) == 1 {
			if obj := r.info.Uses[id]; obj == nil || obj.Pkg() == nil {
				// mutate in place: the call may sit in a non-interface slot (defer/go)
				r.used = true
				r.counts["Close"]++
				x.Fun = sel("vsched", "Close")
				return nil
			}
		}
		if id, ok := x.Fun.(*ast.Ident); ok && id.Name == "make" && len(x.Args) >= 1 {
			if _, isChan := x.Args[0].(*ast.ChanType); isChan {
				return r.call("MakeChan", x)
			}
		}
		if s, ok := x.Fun.(*ast.SelectorExpr); ok {
			if p, ok := s.X.(*ast.Ident); ok && p.Name == "runtime" && s.Sel.Name == "GOMAXPROCS" && len(x.Args) == 1 {
				if lit, ok := x.Args[0].(*ast.BasicLit); ok && lit.Value == "0" {
					r.used = true
					r.counts["GOMAXPROCS"]++
					x.Fun = sel("vsched", "GOMAXPROCS")
					x.Args = nil
					return nil
				}
			}
		}
	}
	return nil
}

func (r *rw) rewriteGo(g *ast.GoStmt) ast.Stmt {
	c := g.Call
	if fl, ok := c.Fun.(*ast.FuncLit); ok && len(c.Args) == 0 && fl.Type.Params.NumFields() == 0 {
		return &ast.ExprStmt{X: r.call("Go", fl)}
	}
	// evaluate function value and arguments now, call later
	var stmts []ast.Stmt
	var args []ast.Expr
	fun := c.Fun
	if _, isLit := fun.(*ast.FuncLit); !isLit {
		if _, isId := fun.(*ast.Ident); !isId {
			if se, ok := fun.(*ast.SelectorExpr); ok {
				// method value or package function: evaluate receiver expression via method value
				_ = se
			}
			f := r.newTmp("f")
			stmts = append(stmts, &ast.AssignStmt{Lhs: []ast.Expr{f}, Tok: token.DEFINE, Rhs: []ast.Expr{fun}})
			fun = f
		}
	}
	for _, a := range c.Args {
		t := r.newTmp("a")
		stmts = append(stmts, &ast.AssignStmt{Lhs: []ast.Expr{t}, Tok: token.DEFINE, Rhs: []ast.Expr{a}})
		args = append(args, t)
	}
	call := &ast.CallExpr{Fun: fun, Args: args, Ellipsis: c.Ellipsis}
	lit := &ast.FuncLit{Type: &ast.FuncType{Params: &ast.FieldList{}}, Body: &ast.BlockStmt{List: []ast.Stmt{&ast.ExprStmt{X: call}}}}
	stmts = append(stmts, &ast.ExprStmt{X: r.call("Go", lit)})
	return &ast.BlockStmt{List: stmts}
}

func (r *rw) rewriteSelect(s *ast.SelectStmt) ast.Stmt {
	var pre []ast.Stmt
	var caseVars []ast.Expr
	var clauses []ast.Stmt
	hasDefault := false
	idx := 0
	for _, cl := range s.Body.List {
		cc := cl.(*ast.CommClause)
		r.visitStmts(cc.Body)
		if cc.Comm == nil {
			hasDefault = true
			clauses = append(clauses, &ast.CaseClause{List: nil, Body: cc.Body})
			continue
		}
		cv := r.newTmp("c")
		var body []ast.Stmt
		switch c := cc.Comm.(type) {
		case *ast.SendStmt:
			r.visitExpr(&c.Chan)
			r.visitExpr(&c.Value)
			pre = append(pre, &ast.AssignStmt{Lhs: []ast.Expr{cv}, Tok: token.DEFINE, Rhs: []ast.Expr{r.call("SendCase", c.Chan, c.Value)}})
		case *ast.ExprStmt:
			u, ok := c.X.(*ast.UnaryExpr)
			if !ok || u.Op != token.ARROW {
				r.errf(c.Pos(), "unsupported select case")
				return nil
			}
			r.visitExpr(&u.X)
			pre = append(pre, &ast.AssignStmt{Lhs: []ast.Expr{cv}, Tok: token.DEFINE, Rhs: []ast.Expr{r.call("RecvCase", u.X)}})
		case *ast.AssignStmt:
			u, ok := c.Rhs[0].(*ast.UnaryExpr)
			if !ok || u.Op != token.ARROW || len(c.Rhs) != 1 {
				r.errf(c.Pos(), "unsupported select case")
				return nil
			}
			r.visitExpr(&u.X)
			pre = append(pre, &ast.AssignStmt{Lhs: []ast.Expr{cv}, Tok: token.DEFINE, Rhs: []ast.Expr{r.call("RecvCase", u.X)}})
			rhs := []ast.Expr{&ast.SelectorExpr{X: cv, Sel: ast.NewIdent("V")}}
			if len(c.Lhs) == 2 {
				rhs = append(rhs, &ast.SelectorExpr{X: cv, Sel: ast.NewIdent("OK")})
			}
			body = append(body, &ast.AssignStmt{Lhs: c.Lhs, Tok: c.Tok, Rhs: rhs})
			if c.Tok == token.DEFINE {
				// avoid "declared and not used"
				for _, l := range c.Lhs {
					if id, ok := l.(*ast.Ident); ok && id.Name != "_" {
						body = append(body, &ast.AssignStmt{Lhs: []ast.Expr{ast.NewIdent("_")}, Tok: token.ASSIGN, Rhs: []ast.Expr{ast.NewIdent(id.Name)}})
					}
				}
			}
		default:
			r.errf(cc.Pos(), "unsupported select case")
			return nil
		}
		caseVars = append(caseVars, cv)
		clauses = append(clauses, &ast.CaseClause{List: []ast.Expr{&ast.BasicLit{Kind: token.INT, Value: strconv.Itoa(idx)}}, Body: append(body, cc.Body...)})
		idx++
	}
	def := "false"
	if hasDefault {
		def = "true"
	}
	args := append([]ast.Expr{ast.NewIdent(def)}, caseVars...)
	sw := &ast.SwitchStmt{Tag: r.call("Select", args...), Body: &ast.BlockStmt{List: clauses}}
	r.counts["select"]++
	return &ast.BlockStmt{List: append(pre, sw)}
}

func main() {
	if len(os.Args) < 2 {
		fmt.Fprintln(os.Stderr, "usage: vinstr <dir>")
		os.Exit(3)
	}
	dir := os.Args[1]
	fset := token.NewFileSet()
	ents, err := os.ReadDir(dir)
	if err != nil {
		fmt.Fprintln(os.Stderr, err)
		os.Exit(3)
	}
	var files []*ast.File
	var names []string
	for _, e := range ents {
		n := e.Name()
		if !strings.HasSuffix(n, ".go") || strings.HasSuffix(n, "_test.go") {
			continue
		}
		f, err := parser.ParseFile(fset, filepath.Join(dir, n), nil, parser.ParseComments)
		if err != nil {
			fmt.Fprintln(os.Stderr, "vinstr: parse:", err)
			os.Exit(3)
		}
		files = append(files, f)
		names = append(names, n)
	}
	// type-check leniently; files with conflicting build constraints are checked together,
	// duplicate declarations across them are tolerated
	info := &types.Info{Types: map[ast.Expr]types.TypeAndValue{}, Uses: map[*ast.Ident]types.Object{}, Defs: map[*ast.Ident]types.Object{}}
	nerr := 0
	conf := types.Config{
		Importer: &lenientImporter{src: importer.ForCompiler(fset, "source", nil), fakes: map[string]*types.Package{}},
		Error:    func(err error) { nerr++ },
	}
	var tfiles []*ast.File
	for i, f := range files {
		// leave out the non-amd64 stub: it redeclares the API
		if names[i] == "simdjson_other.go" {
			continue
		}
		tfiles = append(tfiles, f)
	}
	conf.Check("simdjson", fset, tfiles, info)

	total := map[string]int{}
	var allErrs []string
	for i, f := range files {
		r := &rw{fset: fset, info: info, counts: map[string]int{}, fileName: names[i]}
		// imports
		for _, im := range f.Imports {
			p, _ := strconv.Unquote(im.Path.Value)
			switch p {
			case "sync":
				im.Path.Value = strconv.Quote("verif/vsched/vsync")
				if im.Name == nil {
					im.Name = ast.NewIdent("sync")
				}
				r.counts["import-sync"]++
			case "sync/atomic":
				im.Path.Value = strconv.Quote("verif/vsched/vatomic")
				if im.Name == nil {
					im.Name = ast.NewIdent("atomic")
				}
				r.counts["import-atomic"]++
			}
		}
		r.visit(reflect.ValueOf(f))
		allErrs = append(allErrs, r.errs...)
		if r.counts["GOMAXPROCS"] > 0 {
			// keep the runtime import referenced
			f.Decls = append(f.Decls, &ast.GenDecl{Tok: token.VAR, Specs: []ast.Spec{&ast.ValueSpec{Names: []*ast.Ident{ast.NewIdent("_")}, Values: []ast.Expr{sel("runtime", "NumCPU")}}}})
		}
		if r.used {
			// add the vsched import
			spec := &ast.ImportSpec{Name: ast.NewIdent("vsched"), Path: &ast.BasicLit{Kind: token.STRING, Value: strconv.Quote("verif/vsched")}}
			added := false
			for _, d := range f.Decls {
				if gd, ok := d.(*ast.GenDecl); ok && gd.Tok == token.IMPORT {
					gd.Specs = append(gd.Specs, spec)
					if !gd.Lparen.IsValid() {
						gd.Lparen = gd.Pos()
						gd.Rparen = gd.End()
					}
					added = true
					break
				}
			}
			if !added {
				f.Decls = append([]ast.Decl{&ast.GenDecl{Tok: token.IMPORT, Specs: []ast.Spec{spec}}}, f.Decls...)
			}
		}
		var buf bytes.Buffer
		if err := format.Node(&buf, fset, f); err != nil {
			fmt.Fprintln(os.Stderr, "vinstr: print:", names[i], err)
			os.Exit(3)
		}
		out := buf.Bytes()
		// post-condition: no raw concurrency syntax remains
		chk, err := parser.ParseFile(token.NewFileSet(), names[i], out, 0)
		if err != nil {
			fmt.Fprintln(os.Stderr, "vinstr: rewritten file does not parse:", names[i], err)
			os.Exit(3)
		}
		ast.Inspect(chk, func(n ast.Node) bool {
			switch x := n.(type) {
			case *ast.GoStmt, *ast.SendStmt, *ast.SelectStmt:
				allErrs = append(allErrs, fmt.Sprintf("%s: raw %T left after rewriting", names[i], n))
			case *ast.UnaryExpr:
				if x.Op == token.ARROW {
					allErrs = append(allErrs, fmt.Sprintf("%s: raw channel receive left after rewriting", names[i]))
				}
			case *ast.CallExpr:
				if id, ok := x.Fun.(*ast.Ident); ok && id.Name == "close" {
					allErrs = append(allErrs, fmt.Sprintf("%s: raw close() left after rewriting", names[i]))
				}
			case *ast.ImportSpec:
				if x.Path.Value == `"sync"` || x.Path.Value == `"sync/atomic"` {
					allErrs = append(allErrs, fmt.Sprintf("%s: import %s left", names[i], x.Path.Value))
				}
			}
			return true
		})
		if err := os.WriteFile(filepath.Join(dir, names[i]), out, 0o644); err != nil {
			fmt.Fprintln(os.Stderr, err)
			os.Exit(3)
		}
		for k, v := range r.counts {
			total[k] += v
		}
	}
	if len(allErrs) > 0 {
		for _, e := range allErrs {
			fmt.Fprintln(os.Stderr, "vinstr:", e)
		}
		os.Exit(3)
	}
	fmt.Printf("vinstr: %d files, rewrites %v, %d tolerated type errors\n", len(files), total, nerr)
}
