//go:build vsched_harness

package main

import (
	"bufio"
	"fmt"
	"os"
	"os/exec"
	"path/filepath"
	"regexp"
	"strings"
	"time"

	simdjson "github.com/minio/simdjson-go"

	"verif/vsched"
)

// Layer B of C07: the TLA+ protocol model models/RingPipeline.tla is checked by TLC for the
// live ring geometry and the document's buffer count; its complete labelled state graph is
// dumped and EVERY EDGE is replayed against the implementation: the scheduler is steered
// along a model path, and at every step the set of enabled threads of the implementation
// must equal the set of processes the model enables in that state.

type tlaEdge struct {
	from, to string
	action   string
}

type tlaGraph struct {
	init  string
	out   map[string][]tlaEdge
	label map[string]string
	edges []tlaEdge
}

var (
	reNode = regexp.MustCompile(`^(-?\d+) \[label="((?:[^"\\]|\\.)*)"(,style = filled)?`)
	reEdge = regexp.MustCompile(`^(-?\d+) -> (-?\d+) \[label="([A-Za-z]+)"`)
)

func parseDot(path string) (*tlaGraph, error) {
	f, err := os.Open(path)
	if err != nil {
		return nil, err
	}
	defer f.Close()
	g := &tlaGraph{out: map[string][]tlaEdge{}, label: map[string]string{}}
	sc := bufio.NewScanner(f)
	sc.Buffer(make([]byte, 1<<20), 1<<24)
	for sc.Scan() {
		line := sc.Text()
		if m := reEdge.FindStringSubmatch(line); m != nil {
			e := tlaEdge{m[1], m[2], m[3]}
			if e.from == e.to {
				continue // stuttering
			}
			g.out[e.from] = append(g.out[e.from], e)
			g.edges = append(g.edges, e)
			continue
		}
		if m := reNode.FindStringSubmatch(line); m != nil {
			if _, ok := g.label[m[1]]; !ok {
				g.label[m[1]] = strings.ReplaceAll(m[2], `\n`, " ")
			}
			if m[3] != "" && g.init == "" {
				g.init = m[1]
			}
		}
	}
	if g.init == "" || len(g.edges) == 0 {
		return nil, fmt.Errorf("no initial state or no edges in %s", path)
	}
	return g, sc.Err()
}

func shortState(l string) string {
	var parts []string
	for _, k := range []string{"ppc", "pn", "cpc", "cur", "chan", "wg", "drained"} {
		re := regexp.MustCompile(`/\\\\ ` + k + ` = ([^/]*)`)
		if m := re.FindStringSubmatch(l); m != nil {
			parts = append(parts, k+"="+strings.TrimSpace(m[1]))
		}
	}
	return strings.Join(parts, " ")
}

// runTLC checks the model for the given constants and dumps its state graph.
func runTLC(dir string, S, C, N, failAt int) (*tlaGraph, string, error) {
	os.MkdirAll(dir, 0o755)
	spec, err := os.ReadFile(filepath.Join(verifDir(), "models", "RingPipeline.tla"))
	if err != nil {
		return nil, "", err
	}
	os.WriteFile(filepath.Join(dir, "RingPipeline.tla"), spec, 0o644)
	cfg := fmt.Sprintf("CONSTANTS\n S = %d\n C = %d\n N = %d\n FailAt = %d\nSPECIFICATION Spec\nINVARIANTS NoOverwriteBeforeConsumed HoldsAtMostOne NoDeadlock\nPROPERTIES BothTerminate\nCHECK_DEADLOCK FALSE\n", S, C, N, failAt)
	os.WriteFile(filepath.Join(dir, "ring.cfg"), []byte(cfg), 0o644)
	cmd := exec.Command("tlc", "-metadir", filepath.Join(dir, "meta"), "-config", "ring.cfg", "-dump", "dot,actionlabels", filepath.Join(dir, "ring.dot"), "RingPipeline.tla")
	cmd.Dir = dir
	out, err := cmd.CombinedOutput()
	text := string(out)
	if err != nil && !strings.Contains(text, "Model checking completed") {
		return nil, text, fmt.Errorf("tlc: %v", err)
	}
	if !strings.Contains(text, "No error has been found") {
		return nil, text, fmt.Errorf("TLC reports an error in the model itself")
	}
	g, perr := parseDot(filepath.Join(dir, "ring.dot"))
	return g, text, perr
}

func procOf(action string) int {
	if strings.HasPrefix(action, "P") {
		return 0 // producer = calling goroutine = managed thread 0
	}
	return 1 // consumer goroutine = managed thread 1
}

type steerResult struct {
	mismatch string
	steps    int
}

// replayPath steers one execution along path and reports the first disagreement.
func replayPath(doc c07Doc, g *tlaGraph, path []tlaEdge) (c07Outcome, steerResult) {
	var sr steerResult
	k := 0
	node := g.init
	var pj *simdjson.ParsedJson
	var err error
	live := 0
	res := vsched.Run(zeroChooser{}, vsched.Options{MaxSteps: 200000, Steer: func(enabled []int) int {
		if k >= len(path) || sr.mismatch != "" {
			return 0
		}
		// processes the model enables in this state
		want := map[int]bool{}
		for _, e := range g.out[node] {
			want[procOf(e.action)] = true
		}
		got := map[int]bool{}
		for _, id := range enabled {
			got[id] = true
		}
		if len(want) != len(got) || (want[0] != got[0]) || (want[1] != got[1]) {
			sr.mismatch = fmt.Sprintf("after %d model steps (model state %s): the model enables processes %v, the implementation has threads %v enabled", k, shortState(g.label[node]), keysOf2(want), enabled)
			return 0
		}
		p := procOf(path[k].action)
		idx := -1
		for i, id := range enabled {
			if id == p {
				idx = i
			}
		}
		node = path[k].to
		k++
		sr.steps = k
		return idx
	}}, func() {
		if doc.nd {
			pj, err = simdjson.ParseND(doc.text, nil)
		} else {
			pj, err = simdjson.Parse(doc.text, nil)
		}
		live = vsched.LiveOthers()
	})
	out := c07Outcome{Deadlock: res.Deadlock, Livelock: res.Livelock, Outlives: live}
	if res.Panic != nil {
		out.Panic = fmt.Sprint(res.Panic)
	}
	if err != nil {
		out.Err = err.Error()
	} else if pj != nil {
		out.Tape = tapeHash(pj)
	}
	if sr.mismatch == "" && k < len(path) {
		sr.mismatch = fmt.Sprintf("the implementation finished after %d of %d model steps", k, len(path))
	}
	return out, sr
}

func keysOf2(m map[int]bool) []int {
	var out []int
	for _, k := range []int{0, 1} {
		if m[k] {
			out = append(out, k)
		}
	}
	return out
}

// c07LayerB runs TLC and replays every edge of the model's state graph on the code.
func c07LayerB(w *W, docs []c07Doc, S, C int, buffers map[string]int, canon map[string]c07Outcome) {
	scratch := os.Getenv("VERIF_SCRATCH")
	if scratch == "" {
		scratch = os.TempDir()
	}
	plan := []struct {
		doc    string
		failAt func(n int) int
	}{
		{"D11-just-above-threshold", func(n int) int { return 0 }},
		{"D1-dense-valid-20-buffers", func(n int) int { return 0 }},
		{"D4-stage2-error-first-buffer", func(n int) int { return 1 }},
		{"D5-stage2-error-last-buffer", func(n int) int { return n }},
	}
	for pi, pl := range plan {
		var doc *c07Doc
		for i := range docs {
			if docs[i].name == pl.doc {
				doc = &docs[i]
			}
		}
		if doc == nil {
			continue
		}
		n := buffers[doc.name]
		// one worker runs TLC for this document, the others wait for its dump
		dir := filepath.Join(scratch, fmt.Sprintf("tlc-%d", pi))
		marker := filepath.Join(dir, "done")
		var g *tlaGraph
		var tlcOut string
		var err error
		if pi%w.N == w.Shard {
			g, tlcOut, err = runTLC(dir, S, C, n, pl.failAt(n))
			if err != nil {
				os.WriteFile(filepath.Join(dir, "failed"), []byte(err.Error()+"\n"+tlcOut), 0o644)
			}
			os.WriteFile(marker, nil, 0o644)
		} else {
			for i := 0; i < 1200; i++ {
				if _, serr := os.Stat(marker); serr == nil {
					break
				}
				w.cur.Set("C07-layerB/wait-for-tlc", "", nil)
				time.Sleep(100 * time.Millisecond)
			}
			if fb, ferr := os.ReadFile(filepath.Join(dir, "failed")); ferr == nil {
				tlcOut, err = string(fb), fmt.Errorf("tlc failed in the designated worker")
			} else {
				g, err = parseDot(filepath.Join(dir, "ring.dot"))
			}
		}
		if err != nil && strings.Contains(tlcOut, "is violated") {
			// the protocol itself is broken for the live constants (e.g. channel capacity too
			// large for the ring): TLC's counterexample is the evidence
			if w.Shard == 0 {
				i := strings.Index(tlcOut, "Error:")
				w.Violate(Violation{Harness: "C07-layerB", Fingerprint: "C07/layerB/model-invariant", What: fmt.Sprintf("TLC: the pipeline protocol with the live constants S=%d C=%d N=%d violates an invariant of models/RingPipeline.tla: %s", S, C, n, clip(tlcOut[i:])), Case: []byte(fmt.Sprintf("S=%d C=%d N=%d", S, C, n)), CaseText: doc.name, Config: "layerB"})
			}
			continue
		}
		if err != nil && (strings.Contains(err.Error(), "executable file not found") || strings.Contains(tlcOut, "executable file not found")) {
			// TLC is not installed here: layer B cannot run; layer A alone decides (reported as not exhaustive)
			if w.Shard == 0 {
				w.Note("layer B skipped: tlc not found on PATH")
			}
			w.res.Capped = true
			return
		}
		if err != nil {
			w.Fatal("layer B: %v\n%s", err, clip(tlcOut))
		}
		// BFS tree: shortest path to every state
		parent := map[string]*tlaEdge{}
		order := []string{g.init}
		seen := map[string]bool{g.init: true}
		for i := 0; i < len(order); i++ {
			for j := range g.out[order[i]] {
				e := &g.out[order[i]][j]
				if !seen[e.to] {
					seen[e.to] = true
					parent[e.to] = e
					order = append(order, e.to)
				}
			}
		}
		pathTo := func(s string) []tlaEdge {
			var rev []tlaEdge
			for s != g.init {
				e := parent[s]
				rev = append(rev, *e)
				s = e.from
			}
			for i, j := 0, len(rev)-1; i < j; i, j = i+1, j-1 {
				rev[i], rev[j] = rev[j], rev[i]
			}
			return rev
		}
		if w.Shard == 0 {
			w.Note(fmt.Sprintf("layer B %s: TLC checked models/RingPipeline.tla for S=%d C=%d N=%d FailAt=%d (NoOverwriteBeforeConsumed, NoDeadlock, BothTerminate hold): %d states, %d labelled transitions; every transition replayed on the implementation", doc.name, S, C, n, pl.failAt(n), len(order), len(g.edges)))
		}
		for ei, e := range g.edges {
			if ei%w.N != w.Shard {
				continue
			}
			if w.Expired() {
				return
			}
			path := append(pathTo(e.from), e)
			w.cur.Set("C07-layerB/"+doc.name, "", []byte(fmt.Sprint(ei)))
			out, sr := replayPath(*doc, g, path)
			w.res.Evaluations++
			w.res.Validated++
			w.res.Transitions++
			w.Count("model_transitions_replayed_on_implementation", 1)
			bad, fp := "", ""
			switch {
			case sr.mismatch != "":
				bad, fp = "model and implementation disagree: "+sr.mismatch, "conformance"
			case out != canon[doc.name]:
				bad, fp = fmt.Sprintf("the schedule of model path #%d gives %s, the default schedule gives %s", ei, out, canon[doc.name]), "outcome-differs"
			}
			if bad != "" {
				var acts []string
				for _, pe := range path {
					acts = append(acts, pe.action)
				}
				w.Violate(Violation{Harness: "C07-layerB", Fingerprint: "C07/layerB/" + fp + "/" + doc.name, What: bad, Case: []byte(strings.Join(acts, " ")), CaseText: doc.name + " model path " + strings.Join(acts, " "), Config: "layerB"})
			}
		}
	}
}
