//go:build vsched_harness

package main

import (
	"encoding/json"
	"fmt"

	simdjson "github.com/minio/simdjson-go"

	"verif/vexp"
	"verif/vsched"
)

// C15S: the scheduled part of C15 - Deserialize histories on a reused destination and
// Serializer under every interleaving of the decompression goroutines. A failed call must
// leave nothing behind that can touch the destination later.

type c15sCase struct {
	First   int   `json:"first"`  // index of the (possibly corrupted) first blob
	Second  int   `json:"second"` // index of the second blob
	Choices []int `json:"choices"`
}

type c15sBlob struct {
	name    string
	data    []byte
	wantErr bool
	exact   string
}

func c15sBlobs() []c15sBlob {
	var out []c15sBlob
	vsched.Run(zeroChooser{}, vsched.Options{PoolPrefill: 1}, func() {
		docs := []struct {
			name, text string
			copy       bool
		}{
			{"nocopy-strings", `{"msg":"in message only, long enough to matter","k":["x","yy",""],"esc":"a\nb"}`, false},
			{"copy-strings", `["second document","with other strings",1,2.5,{"k":"v"}]`, true},
			{"short", `{"a":"z"}`, false},
		}
		for _, d := range docs {
			pj, err := simdjson.Parse([]byte(d.text), nil, simdjson.WithCopyStrings(d.copy))
			if err != nil {
				panic(err)
			}
			exact := renderOf(pj, nil)
			for m := 0; m < 4; m++ {
				s := simdjson.NewSerializer()
				s.CompressMode(simdjson.CompressMode(m))
				b := append([]byte(nil), s.Serialize(nil, *pj)...)
				out = append(out, c15sBlob{name: d.name + "/" + modeNames[m], data: b, exact: exact})
				// corrupted variants: the block-type byte of the tags block / of the values block
				f := varintFields(b)
				for _, fi := range []int{7, 9} {
					if len(f) > fi {
						c := append([]byte(nil), b...)
						pos := f[fi][0] + f[fi][1]
						if pos < len(c) {
							c[pos] = 9
							out = append(out, c15sBlob{name: fmt.Sprintf("%s/%s corrupt block type of field %d", d.name, modeNames[m], fi), data: c, wantErr: true})
						}
					}
				}
			}
		}
	})
	return out
}

type c15sObs struct {
	first, second string
	liveAfter1    int
	liveAfter2    int
	res           vsched.Result
}

func c15sExec(ch vsched.Chooser, blobs []c15sBlob, a, b int) c15sObs {
	var o c15sObs
	o.res = vsched.Run(ch, vsched.Options{MaxSteps: 100000, PoolPrefill: 1}, func() {
		s := simdjson.NewSerializer()
		dst, err := s.Deserialize(blobs[a].data, nil)
		o.liveAfter1 = vsched.LiveOthers()
		o.first = renderOf(dst, err)
		if err != nil {
			o.first = "ERR"
		}
		out, err2 := s.Deserialize(blobs[b].data, dst)
		o.liveAfter2 = vsched.LiveOthers()
		if err2 != nil {
			o.second = "ERR"
		} else {
			o.second = renderOf(out, nil)
		}
	})
	return o
}

func c15sBody(w *W) {
	blobs := c15sBlobs()
	pb := 1
	if w.Thorough() {
		pb = 2
	}
	w.Note(fmt.Sprintf("Deserialize(first, nil) then Deserialize(second, the same destination) on one Serializer, for every ordered pair over %d blobs (3 documents x 4 modes, plus each with the block-type byte of its tags block or values block corrupted so the call fails after the message decompressor was started); every interleaving of the caller and the decompression goroutines with <= %d preemptions; the second result must equal a fresh Deserialize and no goroutine of a call may outlive it", len(blobs), pb))
	for a := range blobs {
		for b := range blobs {
			if blobs[b].wantErr {
				continue
			}
			w.res.States++
			if !w.Mine() || w.Expired() || w.TooManyViolations() {
				continue
			}
			var o c15sObs
			e := &vexp.Explorer{Bound: pb, N: 1, MaxExec: 200000, Stop: func() bool { return w.Expired() }}
			e.Exec = func(ch vsched.Chooser) bool {
				enc, _ := json.Marshal(c15sCase{First: a, Second: b})
				w.cur.Set("C15S-deserialize-reuse", "", enc)
				o = c15sExec(ch, blobs, a, b)
				return false
			}
			e.Check = func(choices []int, trace []vexp.Point) {
				w.res.Evaluations++
				w.res.Validated++
				bad, fp := "", ""
				switch {
				case o.res.Panic != nil:
					bad, fp = fmt.Sprint("panic: ", o.res.Panic), "panic"
				case o.res.Deadlock || o.res.Livelock:
					bad, fp = fmt.Sprintf("deadlock/livelock %v", o.res.Blocked), "deadlock"
				case o.liveAfter1 > 0 || o.liveAfter2 > 0:
					bad, fp = fmt.Sprintf("%d goroutine(s) of Deserialize still running after the first call returned, %d after the second: they keep writing into the reused destination", o.liveAfter1, o.liveAfter2), "goroutine-outlives-deserialize"
				case (o.first == "ERR") != blobs[a].wantErr:
					bad, fp = fmt.Sprintf("first call: got %s, corrupted=%v", clip(o.first), blobs[a].wantErr), "first-outcome"
				case o.second != blobs[b].exact:
					bad, fp = fmt.Sprintf("second call into the reused destination gives %s, into a fresh one %s", clip(o.second), clip(blobs[b].exact)), "second-differs"
				}
				w.Distinct(hashBytes([]byte(fmt.Sprint(a, b, o.first, o.second))))
				if bad != "" {
					c := c15sCase{First: a, Second: b, Choices: choices}
					enc, _ := json.Marshal(c)
					w.Violate(Violation{Harness: "C15S-deserialize-reuse", Fingerprint: "C15/sched/" + fp, What: bad, Case: enc, CaseText: fmt.Sprintf("Deserialize(%s, nil); Deserialize(%s, reused) schedule %s", blobs[a].name, blobs[b].name, compressChoices(choices)), Config: fmt.Sprintf("pb<=%d", pb)})
				}
			}
			e.Explore()
			w.res.Transitions += e.Stats.Transitions
			if e.Stats.Capped {
				w.res.Capped = true
			}
		}
	}
	w.Sample("Deserialize(nocopy-strings/best with corrupt tags block type, nil); Deserialize(short/none, reused) with the zstd message goroutine delayed past the second call")
}

func c15sReplay(v *Violation) string {
	var c c15sCase
	if err := json.Unmarshal(v.Case, &c); err != nil {
		return "cannot decode"
	}
	blobs := c15sBlobs()
	o := c15sExec(&prefixChooser{p: c.Choices}, blobs, c.First, c.Second)
	if o.res.Panic != nil || o.liveAfter1 > 0 || o.liveAfter2 > 0 || o.second != blobs[c.Second].exact {
		return fmt.Sprintf("FAIL live=%d/%d second=%s panic=%v", o.liveAfter1, o.liveAfter2, clip(o.second), o.res.Panic)
	}
	return "OK"
}

func init() {
	register(&check{
		prop: "C15S", name: "deserialize-reuse-schedules", level: "model_checking",
		rule:   "scheduled part of C15 (merged into C15's evidence by the plain driver)",
		body:   c15sBody,
		replay: c15sReplay,
	})
}
