//go:build vsched_harness

package main

import (
	"encoding/json"
	"errors"
	"fmt"
	"io"
	"os"
	"strings"

	simdjson "github.com/minio/simdjson-go"

	"verif/ref"
	"verif/vexp"
	"verif/vsched"
)

var errSentinel = errors.New("injected reader fault")

// scriptReader delivers the stream in the fragments given by cuts and optionally fails.
type scriptReader struct {
	data     []byte
	cuts     []int // ascending positions where a Read result ends
	pos      int
	faultAt  int // byte offset at which the reader fails (-1: never)
	withData bool
	eofData  bool // the last fragment is returned together with io.EOF
	oneShot  bool // the fault is reported once; a reader asked again answers io.EOF
	reported bool
	fault    error // the error the reader fails with
}

// the errors a failing reader answers with: a private one, and the bare io.ErrUnexpectedEOF that
// truncated gzip/flate/HTTP bodies produce (which must not be taken for the end of the stream)
var c09Faults = []error{errSentinel, io.ErrUnexpectedEOF, io.ErrClosedPipe}

func (r *scriptReader) Read(p []byte) (int, error) {
	if r.oneShot && r.reported {
		return 0, io.EOF
	}
	if r.faultAt >= 0 && r.pos >= r.faultAt {
		r.reported = true
		return 0, r.fault
	}
	if r.pos >= len(r.data) {
		return 0, io.EOF
	}
	end := len(r.data)
	for _, c := range r.cuts {
		if c > r.pos {
			end = c
			break
		}
	}
	if r.faultAt >= 0 && end > r.faultAt {
		end = r.faultAt
	}
	if end-r.pos > len(p) {
		end = r.pos + len(p)
	}
	n := copy(p, r.data[r.pos:end])
	r.pos += n
	if r.eofData && r.pos >= len(r.data) && r.faultAt < 0 {
		return n, io.EOF
	}
	if r.faultAt >= 0 && r.pos >= r.faultAt && r.withData {
		r.reported = true
		return n, r.fault
	}
	return n, nil
}

type c09Env struct {
	Stream   int   `json:"stream"`
	Cuts     []int `json:"cuts"`
	FaultAt  int   `json:"fault_at"`
	WithData bool  `json:"with_data"`
	Recycle  int   `json:"recycle"` // bit i: recycle the i-th delivered value
	Gomax    int   `json:"gomax"`
	ResCap   int   `json:"res_cap"`
	TmpSize  int   `json:"tmp_size"`
	EOFData  bool  `json:"eof_with_data,omitempty"`
	OneShot  bool  `json:"one_shot_fault,omitempty"`
	ErrKind  int   `json:"fault_error_kind,omitempty"` // index into c09Faults
	Choices  []int `json:"choices,omitempty"`
}

func (e c09Env) String() string {
	return fmt.Sprintf("stream#%d cuts=%v fault@%d(data=%v oneShot=%v error#%d) lastReadWithEOF=%v recycle=%b GOMAXPROCS=%d cap(res)=%d tmpSize=%d", e.Stream, e.Cuts, e.FaultAt, e.WithData, e.OneShot, e.ErrKind, e.EOFData, e.Recycle, e.Gomax, e.ResCap, e.TmpSize)
}

var c09Streams = []string{
	"{\"a\":1}\n",
	"{\"a\":1}\n[2]\n",
	"{\"a\":1}\n[2]\n{\"c\":[3]}",
	"\n\n{\"a\":1}\n\n\n[2]\n \n",
	"{\"a\":1}\r\n[2]\r\n",
	"[1]\n[2]\n[3]\n[4]\n",
	"",
	" \n",
	"[1]\n[2]\n[3]\n[4]\n[5]\n[6]\n",
	"{\"k\":\"" + strings.Repeat("x", 150) + "\"}\n[2]\n",     // a line longer than the (scaled) chunk and bufio buffers
	"[" + strings.Repeat("1,", 11000) + "1]\n{\"after\":1}\n", // one dense 22 KB chunk (16 index buffers), then a small one
	"\r\n{\"a\":1}\r\n\r\n[2]\r\n\r\n",                        // CR LF line ends with blank lines in front, between and behind
}

type c09Obs struct {
	docs     []string // exact renders of delivered documents, in order
	errs     []string
	afterErr int // messages received after the first error
	closed   bool
	sentinel bool
	eof      bool
	heldBad  string
	res      vsched.Result
}

func c09Exec(ch vsched.Chooser, env c09Env, stream []byte) c09Obs {
	var o c09Obs
	o.res = vsched.Run(ch, vsched.Options{MaxSteps: 100000, GOMAXPROCS: env.Gomax, Log: os.Getenv("VERIF_DEBUG") != "", Digest: c09Digest, LocalOpt: true}, func() {
		simdjson.VerifTmpSize = env.TmpSize
		rd := &scriptReader{data: stream, cuts: env.Cuts, faultAt: env.FaultAt, withData: env.WithData, eofData: env.EOFData, oneShot: env.OneShot, fault: c09Faults[env.ErrKind]}
		res := vsched.MakeChan(make(chan simdjson.Stream, env.ResCap))
		reuse := vsched.MakeChan(make(chan *simdjson.ParsedJson, 2))
		simdjson.ParseNDStream(rd, res, reuse)
		type held struct {
			pj   *simdjson.ParsedJson
			want string
		}
		var hold []held
		nval := 0
		for {
			v, ok := vsched.Recv2(res)
			if !ok {
				o.closed = true
				break
			}
			if len(o.errs) > 0 {
				o.afterErr++
			}
			if v.Error != nil {
				o.errs = append(o.errs, v.Error.Error())
				if errors.Is(v.Error, c09Faults[env.ErrKind]) {
					o.sentinel = true
				}
				if v.Error == io.EOF {
					o.eof = true
				}
				continue
			}
			if v.Value == nil {
				o.errs = append(o.errs, "message with neither value nor error")
				continue
			}
			docs, err := walkFlat(v.Value)
			if err != nil {
				o.errs = append(o.errs, "unreadable value: "+err.Error())
				continue
			}
			var rs []string
			for _, d := range docs {
				rs = append(rs, d.Render())
			}
			o.docs = append(o.docs, rs...)
			if env.Recycle&(1<<uint(nval)) != 0 {
				vsched.Select(true, vsched.SendCase(reuse, v.Value))
			} else {
				hold = append(hold, held{v.Value, strings.Join(rs, "\n")})
			}
			nval++
		}
		// values the consumer kept must still read the same after later chunks were parsed
		for i, h := range hold {
			docs, err := walkFlat(h.pj)
			if err != nil || renderDocs(docs, renderExact) != h.want {
				o.heldBad = fmt.Sprintf("value #%d held by the consumer changed after later chunks were processed: now %v (%v), was %s", i, renderDocs(docs, renderExact), err, h.want)
			}
		}
	})
	return o
}

// c09Judge compares an observation with the stream model.
func c09Judge(o c09Obs, env c09Env, want []string) (what, fp string) {
	if o.res.Panic != nil {
		return fmt.Sprint("panic: ", o.res.Panic), "panic"
	}
	if o.res.Livelock {
		return "step horizon exceeded (livelock)", "livelock"
	}
	if !o.closed {
		if o.res.Deadlock {
			return fmt.Sprintf("deadlock: the result channel is never closed and no goroutine can run: %v", o.res.Blocked), "deadlock"
		}
		return "result channel not closed", "not-closed"
	}
	if o.heldBad != "" {
		return o.heldBad, "held-value-changed"
	}
	if o.afterErr > 0 {
		return fmt.Sprintf("%d message(s) delivered after the first error (errors: %v)", o.afterErr, o.errs), "after-error"
	}
	join := func(s []string) string { return strings.Join(s, " | ") }
	if env.FaultAt < 0 {
		if join(o.docs) != join(want) {
			return fmt.Sprintf("delivered documents [%s], stream holds [%s] (errors: %v)", clip(join(o.docs)), clip(join(want)), o.errs), "documents"
		}
		if len(o.errs) != 1 || !o.eof {
			return fmt.Sprintf("well-formed stream: expected exactly one io.EOF, got errors %v", o.errs), "errors"
		}
		return "", ""
	}
	// reader fault: delivered documents are a prefix, the reader's error arrives, then close
	if len(o.docs) > len(want) || join(o.docs) != join(want[:len(o.docs)]) {
		return fmt.Sprintf("after a reader fault the delivered documents [%s] are not a prefix of [%s]", clip(join(o.docs)), clip(join(want))), "fault-prefix"
	}
	if len(o.errs) != 1 || !o.sentinel {
		return fmt.Sprintf("reader fault: expected exactly the reader's error before close, got %v", o.errs), "fault-error"
	}
	return "", ""
}

func subsetsUpTo(n, k int, fn func(cuts []int)) {
	var cur []int
	var rec func(start int)
	rec = func(start int) {
		fn(append([]int(nil), cur...))
		if len(cur) == k {
			return
		}
		for p := start; p < n; p++ {
			cur = append(cur, p)
			rec(p + 1)
			cur = cur[:len(cur)-1]
		}
	}
	rec(1)
}

type randChooser struct{ x uint64 }

func (r *randChooser) Choose(n int, preempt bool, kind string) int {
	r.x = r.x*6364136223846793005 + 1442695040888963407
	return int((r.x >> 33) % uint64(n))
}

func c09Body(w *W) {
	vsched.DebugEnabled = os.Getenv("VERIF_DEBUG") != ""
	if n := envInt("VERIF_C09_RANDOM", 0); n > 0 {
		// development aid: random schedules of the six-chunk scenario (not a deciding step)
		stream := []byte(c09Streams[8])
		docs, _ := ref.ParseND(stream)
		var want []string
		for _, d := range docs {
			want = append(want, d.Render())
		}
		env := c09Env{Stream: 8, Cuts: []int{4, 8, 12, 16, 20}, FaultAt: -1, Recycle: 0xff, Gomax: 3, ResCap: 0, TmpSize: 64}
		bad := 0
		for i := int64(0); i < n; i++ {
			w.cur.Set("dbg", "", nil)
			obs := c09Exec(&randChooser{x: uint64(i)*77 + uint64(w.Shard)}, env, stream)
			w.res.Evaluations++
			if what, _ := c09Judge(obs, env, want); what != "" {
				bad++
				if bad == 1 {
					w.Note("random schedule finds: " + what)
				}
			}
		}
		// compare the set of observations with what the pruned DFS reaches
		randObs := map[string]bool{}
		for i := int64(0); i < n; i++ {
			w.cur.Set("dbg", "", nil)
			obs := c09Exec(&randChooser{x: uint64(i)*131 + 7}, env, stream)
			randObs[fmt.Sprint(obs.docs, obs.errs)] = true
		}
		dfsObs := map[string]bool{}
		var obs c09Obs
		e := &vexp.Explorer{Bound: -1, N: 1, StateKey: func() uint64 { return vsched.CurrentKey(nil) }}
		e.Exec = func(ch vsched.Chooser) bool {
			w.cur.Set("dbg", "", nil)
			obs = c09Exec(ch, env, stream)
			return obs.res.Pruned != ""
		}
		e.Check = func(choices []int, trace []vexp.Point) { dfsObs[fmt.Sprint(obs.docs, obs.errs)] = true }
		if envInt("VERIF_C09_RANDOM_DFS", 0) == 1 {
			e.Debug = true
			e.Explore()
			// find a bad schedule by deviation-bounded search, then walk it against the visited set
			var badChoices []int
			e4 := &vexp.Explorer{Bound: 3, N: 1, AllCostly: true, Stop: func() bool { return badChoices != nil }}
			e4.Exec = func(ch vsched.Chooser) bool {
				w.cur.Set("dbg", "", nil)
				obs = c09Exec(ch, env, stream)
				return false
			}
			e4.Check = func(choices []int, trace []vexp.Point) {
				if what, _ := c09Judge(obs, env, want); what != "" && badChoices == nil {
					badChoices = append([]int(nil), choices...)
				}
			}
			e4.Explore()
			w.Note(fmt.Sprintf("bad schedule: %v", compressChoices(badChoices)))
			pc := &probeChooser{p: badChoices, e: e}
			c09Exec(pc, env, stream)
			w.Note(fmt.Sprintf("bad schedule: first point whose state key the pruned search never saw: %d of %d", pc.firstUnseen, len(badChoices)))
			if pc.firstUnseen > 0 {
				w.Note("state on the bad path at the last seen point:\n" + pc.lastSeenDesc)
				// the state the search reached under the same key
				pc2 := &probeChooser{p: e.FirstReach[pc.lastSeenKey], e: e, stopAt: len(e.FirstReach[pc.lastSeenKey])}
				c09Exec(pc2, env, stream)
				w.Note("state the search expanded under the same key:\n" + pc2.descAtStop)
			}
		}
		for b := 1; b <= 3; b++ {
			devObs := map[string]bool{}
			e3 := &vexp.Explorer{Bound: b, N: 1, AllCostly: true}
			e3.Exec = func(ch vsched.Chooser) bool {
				w.cur.Set("dbg", "", nil)
				obs = c09Exec(ch, env, stream)
				return false
			}
			e3.Check = func(choices []int, trace []vexp.Point) { devObs[fmt.Sprint(obs.docs, obs.errs)] = true }
			e3.Explore()
			w.Note(fmt.Sprintf("deviation bound %d: %d executions, %d distinct observations", b, e3.Stats.Executions, len(devObs)))
		}
		for k := range randObs {
			if !dfsObs[k] {
				w.Note("observation reached by a random schedule but not by the pruned search: " + k)
			}
		}
		w.Note(fmt.Sprintf("random distinct observations %d, pruned DFS distinct observations %d, states %d", len(randObs), len(dfsObs), e.Stats.States))
		w.Count("random_bad", int64(bad))
		w.res.States, w.res.Transitions = 1, 1
		w.Sample("random")
		return
	}
	pb := 2
	if w.Thorough() {
		pb = 3
	}
	w.Note(fmt.Sprintf("environment answers enumerated per stream: every set of <= 2 cut positions of the reader (thorough 3), a reader fault after every byte count with and without data in the same call, sticky and reported only once (then io.EOF; deviation bound 1), with a private error value and with bare io.ErrUnexpectedEOF / io.ErrClosedPipe (default schedule), recycle-or-keep per delivered value, GOMAXPROCS in {1,3} (queue capacity 1, 2), result-channel capacity {0,2}, chunk buffer size {64 bytes (scaled constant, run-time knob VerifTmpSize), 10 MiB (real constant, default schedule only)}; schedules: every schedule of consumer / forwarder / reader / chunk parsers with <= %d deviations from the deterministic default scheduler (a deviation = any non-default answer: running another thread than the default one, or a fresh instead of a recycled pool object), no state merging; the six-chunk all-recycled scenario with <= 3 deviations, sharded over all workers; for the one-document stream and the empty ones additionally every interleaving outright (unbounded search with state-key pruning)", pb))
	type job struct {
		env    c09Env
		bound  int
		shards int // > 1: this job is explored by all workers together
	}
	run := func(j job, stream []byte, want []string) {
		// engine: deviation-bounded DFS without any state merging (every non-default answer of
		// the scheduler or the pool costs one deviation); j.bound < 0 selects the unbounded
		// search with state-key pruning instead (smallest scenarios only)
		e := &vexp.Explorer{Bound: j.bound, AllCostly: true, N: 1, Stop: func() bool { return w.Expired() || w.TooManyViolations() }}
		if j.shards > 1 {
			e.N, e.Shard = w.N, w.Shard
		}
		if j.bound < 0 {
			e.StateKey = func() uint64 { return vsched.CurrentKey(nil) }
		}
		var obs c09Obs
		e.Exec = func(ch vsched.Chooser) bool {
			enc, _ := json.Marshal(j.env)
			w.cur.Set("C09-stream", "", enc)
			obs = c09Exec(ch, j.env, stream)
			if obs.res.Pruned != "" {
				w.Count("executions_pruned_on_known_state", 1)
			}
			return obs.res.Pruned != ""
		}
		e.Check = func(choices []int, trace []vexp.Point) {
			w.res.Evaluations++
			w.res.Validated++
			w.Max("max_points_in_one_schedule", int64(len(trace)))
			w.Max("max_threads", int64(obs.res.Threads))
			if obs.res.Deadlock && obs.closed {
				w.Count("executions_with_goroutines_left_blocked_after_close", 1)
			}
			w.Distinct(hashBytes([]byte(fmt.Sprint(j.env.Stream, obs.docs, obs.errs, obs.closed))))
			if what, fp := c09Judge(obs, j.env, want); what != "" {
				env := j.env
				env.Choices = choices
				enc, _ := json.Marshal(env)
				w.Violate(Violation{Harness: "C09-stream", Fingerprint: "C09/" + fp, What: what, Case: enc, CaseText: fmt.Sprintf("%q %s schedule %s", c09Streams[env.Stream], env, compressChoices(choices)), Config: fmt.Sprintf("pb<=%d", j.bound)})
			}
		}
		e.Explore()
		if j.bound < 0 {
			w.res.States += e.Stats.States
		} else {
			w.res.States += e.Stats.Points
		}
		w.res.Transitions += e.Stats.Transitions
		if j.shards <= 1 || w.Shard == 0 {
			w.Count("environment_vectors", 1)
		}
		w.Max("max_states_for_one_environment_vector", e.Stats.States)
		if e.Stats.Capped {
			w.res.Capped = true
		}
	}
	for si, st := range c09Streams {
		stream := []byte(st)
		docs, _ := ref.ParseND(stream)
		var want []string
		for _, d := range docs {
			want = append(want, d.Render())
		}
		n := len(stream)
		maxCuts := 2
		if w.Thorough() {
			maxCuts = 3
		}
		quick := !w.Thorough()
		if quick && si == 5 {
			continue // four documents: thorough tier only
		}
		if si == 10 {
			// dense large chunk: default schedule and one deviation, whole and cut once in the middle
			for _, cuts := range [][]int{nil, {11000}} {
				if w.Mine() {
					run(job{c09Env{Stream: si, Cuts: cuts, FaultAt: -1, Recycle: 0xff, Gomax: 3, ResCap: 0, TmpSize: 64}, 1, 0}, stream, want)
				}
				if w.Mine() {
					run(job{c09Env{Stream: si, Cuts: cuts, FaultAt: -1, Recycle: 0, Gomax: 1, ResCap: 2, TmpSize: 10 << 20}, 0, 0}, stream, want)
				}
			}
			continue
		}
		if si == 9 {
			// long line: no cut, and single cuts every 8 bytes
			var cutsets [][]int
			cutsets = append(cutsets, nil)
			for c := 8; c < n; c += 8 {
				cutsets = append(cutsets, []int{c})
			}
			for _, cuts := range cutsets {
				if w.Mine() {
					run(job{c09Env{Stream: si, Cuts: cuts, FaultAt: -1, Recycle: 0xff, Gomax: 3, ResCap: 0, TmpSize: 64}, pb, 0}, stream, want)
				}
				if w.Mine() {
					run(job{c09Env{Stream: si, Cuts: cuts, FaultAt: -1, Recycle: 0, Gomax: 1, ResCap: 2, TmpSize: 64, EOFData: true}, pb, 0}, stream, want)
				}
			}
			continue
		}
		if si == 8 {
			// six one-line chunks, every value recycled: a chunk buffer handed back to the pool
			// twice (or too early) is taken by the reader while a parser still owns it
			run(job{c09Env{Stream: si, Cuts: []int{4, 8, 12, 16, 20}, FaultAt: -1, Recycle: 0xff, Gomax: 3, ResCap: 0, TmpSize: 64}, 3, w.N}, stream, want)
			run(job{c09Env{Stream: si, Cuts: []int{4, 8, 12, 16, 20}, FaultAt: -1, Recycle: 0xff, Gomax: 1, ResCap: 2, TmpSize: 64}, 3, w.N}, stream, want)
			continue
		}
		type cfg struct{ gomax, rc, recycle int }
		cfgs := []cfg{{3, 0, 0xff}, {3, 0, 0}, {1, 0, 0xff}, {3, 2, 0xff}}
		if !quick {
			cfgs = append(cfgs, cfg{1, 0, 0}, cfg{1, 2, 0xff}, cfg{1, 2, 0}, cfg{3, 2, 0})
		}
		// fragmentation without faults
		subsetsUpTo(n, maxCuts, func(cuts []int) {
			for ci, c := range cfgs {
				if len(cuts) >= 2 && (ci != 0 || (quick && n > 14)) {
					continue // two or more cuts: base configuration (quick: short streams only)
				}
				if !w.Mine() {
					continue
				}
				b := pb
				if b > 2 && (ci != 0 || len(cuts) >= 2) {
					b = 2 // three deviations only in the base configuration with at most one cut
				}
				run(job{c09Env{Stream: si, Cuts: cuts, FaultAt: -1, Recycle: c.recycle, Gomax: c.gomax, ResCap: c.rc, TmpSize: 64}, b, 0}, stream, want)
			}
		})
		// smallest scenarios additionally: EVERY interleaving (unbounded, state-key pruning)
		if n <= 8 {
			if w.Mine() {
				run(job{c09Env{Stream: si, FaultAt: -1, Recycle: 0xff, Gomax: 3, ResCap: 0, TmpSize: 64}, -1, 0}, stream, want)
			}
		}
		// the reader returns its last bytes together with io.EOF (allowed by io.Reader)
		subsetsUpTo(n, 1, func(cuts []int) {
			if !w.Mine() {
				return
			}
			run(job{c09Env{Stream: si, Cuts: cuts, FaultAt: -1, Recycle: 0xff, Gomax: 3, ResCap: 0, TmpSize: 64, EOFData: true}, pb, 0}, stream, want)
		})
		// mixed recycle masks
		subsetsUpTo(n, map[bool]int{true: 0, false: 1}[quick], func(cuts []int) {
			for recycle := 1; recycle < 7; recycle++ {
				if !w.Mine() {
					continue
				}
				run(job{c09Env{Stream: si, Cuts: cuts, FaultAt: -1, Recycle: recycle, Gomax: 3, ResCap: 0, TmpSize: 64}, pb, 0}, stream, want)
			}
		})
		// reader faults at every byte (thorough: combined with every single cut)
		for f := 0; f <= n; f++ {
			for _, wd := range []bool{false, true} {
				subsetsUpTo(n, map[bool]int{true: 0, false: 1}[quick], func(cuts []int) {
					if !w.Mine() {
						return
					}
					b := pb
					if b > 2 && len(cuts) >= 1 {
						b = 2
					}
					run(job{c09Env{Stream: si, Cuts: cuts, FaultAt: f, WithData: wd, Recycle: 0xff, Gomax: 3, ResCap: 0, TmpSize: 64}, b, 0}, stream, want)
					// the same fault reported only once (a timeout, say): a reader asked again
					// answers io.EOF, which must not replace the error
					b1 := b
					if b1 > 1 {
						b1 = 1
					}
					run(job{c09Env{Stream: si, Cuts: cuts, FaultAt: f, WithData: wd, OneShot: true, Recycle: 0xff, Gomax: 3, ResCap: 0, TmpSize: 64}, b1, 0}, stream, want)
					// other error values, default schedule
					for k := 1; k < len(c09Faults); k++ {
						run(job{c09Env{Stream: si, Cuts: cuts, FaultAt: f, WithData: wd, ErrKind: k, Recycle: 0xff, Gomax: 3, ResCap: 0, TmpSize: 64}, 0, 0}, stream, want)
					}
				})
			}
		}
		// real constant (10 MiB buffers)
		subsetsUpTo(n, map[bool]int{true: 0, false: 1}[quick], func(cuts []int) {
			if !w.Mine() {
				return
			}
			run(job{c09Env{Stream: si, Cuts: cuts, FaultAt: -1, Recycle: 0xff, Gomax: 3, ResCap: 0, TmpSize: 10 << 20}, 0, 0}, stream, want)
		})
		if w.Expired() || w.TooManyViolations() {
			break
		}
	}
	w.Sample(fmt.Sprintf("%q with cuts [3 9], recycle all, GOMAXPROCS=3, unbuffered result channel, parser of chunk 1 preempted before its send", c09Streams[2]))
}

func c09Replay(v *Violation) string {
	var env c09Env
	if err := json.Unmarshal(v.Case, &env); err != nil {
		return "cannot decode case"
	}
	stream := []byte(c09Streams[env.Stream])
	docs, _ := ref.ParseND(stream)
	var want []string
	for _, d := range docs {
		want = append(want, d.Render())
	}
	obs := c09Exec(&prefixChooser{p: env.Choices}, env, stream)
	if os.Getenv("VERIF_DEBUG") != "" {
		for _, ev := range obs.res.Log {
			fmt.Printf("  thread %d: %s chan=%d\n", ev.Thread, ev.What, ev.Chan)
		}
	}
	if what, _ := c09Judge(obs, env, want); what != "" {
		return "FAIL " + what
	}
	return fmt.Sprintf("OK delivered %v errors %v closed=%v", obs.docs, obs.errs, obs.closed)
}

func init() {
	register(&check{
		prop: "C09", name: "stream-fragmentation-schedules-faults", level: "model_checking",
		rule:   "Model checking of the source-instrumented ParseNDStream under the controlled scheduler (depth-first search with state-key pruning: thread progress, per-thread hash of everything received, channel contents by value identity, pool sizes), crossed with exhaustively enumerated environment answers. Per stream (8 streams: 1-4 documents, blank lines leading/between/doubled/trailing, CRLF, no final newline, empty, white-space only): every set of <= 2 (3) reader cut positions, a reader fault after every byte count (with/without data), recycle-or-keep for each delivered value, GOMAXPROCS {1,3}, result-channel capacity {0,2}; for each environment vector EVERY interleaving of consumer, forwarder, reader and chunk parsers (no preemption bound; interleavings reaching an already expanded state are cut). Oracle (stream model): delivered documents in order == the stream's documents, then exactly one io.EOF, then close, nothing after the first error; on a fault: documents are a prefix, the reader's error is delivered, then close; values the consumer keeps read the same at the end. states=distinct state keys, transitions=branches, traces_validated=executions judged; distinct_nontrivial=distinct (stream, delivered documents, errors) observations.",
		assume: []string{"chunk buffer constant scaled from 10 MiB to 64 bytes through a run-time knob in the scratch copy for the exhaustive part; the real constant runs under the default schedule", "goroutines left blocked after the channel was closed are counted, not reported (the property speaks about what is delivered)"},
		body:   c09Body,
		replay: c09Replay,
	})
}

// c09Digest identifies values travelling through channels for the state key.
func c09Digest(v any) uint64 {
	switch x := v.(type) {
	case chan simdjson.Stream:
		return vsched.ChanID(x)
	case simdjson.Stream:
		h := uint64(7)
		if x.Error != nil {
			h = hashBytes([]byte(x.Error.Error()))
		}
		if x.Value != nil {
			h ^= tapeHash(x.Value) * 31
		}
		return h
	case *simdjson.ParsedJson:
		if x == nil {
			return 3
		}
		return tapeHash(x) ^ uint64(len(x.Message))<<40
	case string:
		return hashBytes([]byte(x))
	case int:
		return uint64(x) + 11
	}
	return 0
}

// probeChooser replays a schedule and checks every state key against a finished search.
type probeChooser struct {
	p            []int
	i            int
	e            *vexp.Explorer
	firstUnseen  int
	done         bool
	lastSeenKey  uint64
	lastSeenDesc string
	stopAt       int
	descAtStop   string
}

func (c *probeChooser) Choose(n int, preempt bool, kind string) int {
	k := vsched.CurrentKey(nil)
	if c.stopAt > 0 && c.i == c.stopAt {
		c.descAtStop = vsched.DescribeState()
	}
	if !c.done && c.stopAt == 0 {
		if c.e.Visited(k) {
			c.lastSeenKey = k
			c.lastSeenDesc = vsched.DescribeState()
		} else {
			c.firstUnseen = c.i
			c.done = true
		}
	}
	v := 0
	if c.i < len(c.p) {
		v = c.p[c.i]
	}
	c.i++
	if v >= n {
		v = 0
	}
	return v
}
