//go:build vsched_harness

package main

import (
	"bytes"
	"encoding/json"
	"fmt"
	"strings"

	simdjson "github.com/minio/simdjson-go"

	"verif/ref"
	"verif/vexp"
	"verif/vsched"
)

type c07Doc struct {
	name string
	text []byte
	nd   bool
}

// denseBody: n numbers of aperiodically varying width, so the relative structural offsets
// stored in one index buffer never coincide with those of the buffer 16 (ring size) later:
// a slot reused too early changes the outcome.
func denseBody(n int) []byte {
	var b bytes.Buffer
	x := uint32(12345)
	for i := 0; i < n; i++ {
		x = x*1664525 + 1013904223
		switch (x >> 24) % 4 {
		case 0:
			b.WriteByte(byte('1' + i%9))
		case 1:
			fmt.Fprintf(&b, "%d", 10+i%89)
		case 2:
			fmt.Fprintf(&b, "%d.5", i%7)
		default:
			b.WriteString("true")
		}
		b.WriteByte(',')
	}
	return b.Bytes()
}

func c07Docs(thorough bool) []c07Doc {
	d14 := denseBody(14000) // ~50 KB, ~20 index buffers
	mixed := func(n int) []byte {
		var b bytes.Buffer
		lcg := uint32(99)
		for i := 0; i < n; i++ {
			lcg = lcg*1664525 + 1013904223
			switch (lcg >> 24) % 5 {
			case 0:
				fmt.Fprintf(&b, `"s%d",`, i)
			case 1:
				fmt.Fprintf(&b, `{"k":"v%d"},`, i%7)
			case 2:
				b.WriteString(`"",`)
			case 3:
				fmt.Fprintf(&b, `["%s"],`, strings.Repeat("x", i%9))
			default:
				b.WriteString(`"q",`)
			}
		}
		return b.Bytes()
	}
	cat := func(parts ...[]byte) []byte { return bytes.Join(parts, nil) }
	docs := []c07Doc{
		{"D1-dense-valid-20-buffers", cat([]byte("["), d14, []byte("0]")), false},
		{"D3-strings-objects", cat([]byte("["), mixed(1800), []byte("null]")), false},
		{"D4-stage2-error-first-buffer", cat([]byte("[x,"), d14, []byte("0]")), false},
		{"D5-stage2-error-last-buffer", cat([]byte("["), d14, []byte("x]")), false},
		{"D6-stage1-error-at-end", cat([]byte("["), d14, []byte(`"unterminated]`)), false},
		{"D7-stage1-control-char-early", cat([]byte("[\"\x01\","), d14, []byte("0]")), false},
		{"D8-both-errors", cat([]byte("[x,\"\x01\","), d14, []byte(`"unterminated`)), false},
		{"D9-ndjson", func() []byte {
			var b bytes.Buffer
			for i := 0; i < 2400; i++ {
				fmt.Fprintf(&b, "{\"i\":%d}\n", i%13)
				if i%211 == 0 {
					b.WriteString("\n \n")
				}
			}
			b.WriteString("[1]")
			return b.Bytes()
		}(), true},
		{"D10-no-structurals-after-flush", cat([]byte("["), denseBody(5600), bytes.Repeat([]byte("a"), 400)), false},
		{"D11-just-above-threshold", cat([]byte("["), denseBody(4097), []byte("0]")), false},
		{"D12-scope-left-open-ends-with-bracket", cat([]byte("[["), d14, []byte("0]")), false},
		{"D13-nd-last-line-leaves-scope-open", cat(bytes.Repeat([]byte("{\"i\":1}\n"), 1200), []byte("[{\"i\":2}")), true},
	}
	if thorough {
		docs = append(docs, c07Doc{"D2-dense-valid-40-buffers", cat([]byte("["), denseBody(28000), []byte("0]")), false})
	}
	return docs
}

type c07Outcome struct {
	Outlives int // goroutines of the call still running when it returned
	Err      string
	Tape     uint64
	Deadlock bool
	Livelock bool
	Panic    string
}

func (o c07Outcome) String() string {
	switch {
	case o.Deadlock:
		return "DEADLOCK (no enabled thread, some unfinished)"
	case o.Livelock:
		return "LIVELOCK (step horizon exceeded)"
	case o.Panic != "":
		return "PANIC " + o.Panic
	case o.Outlives > 0:
		return fmt.Sprintf("%d internal goroutine(s) still running when the call returned (err=%q)", o.Outlives, o.Err)
	case o.Err != "":
		return "error: " + o.Err
	}
	return fmt.Sprintf("ok tape=%016x", o.Tape)
}

type c07Exec struct {
	gomax    int // what runtime.GOMAXPROCS(0) answers in the code under test (0 = 4)
	doc      c07Doc
	internal any
	last     *simdjson.ParsedJson
	res      vsched.Result
	out      c07Outcome
}

// exec runs one controlled execution of Parse/ParseND on the document.
func (x *c07Exec) exec(ch vsched.Chooser, logOn bool) (pruned bool) {
	var pj *simdjson.ParsedJson
	var err error
	live := 0
	x.internal = nil
	text := x.doc.text
	x.res = vsched.Run(ch, vsched.Options{MaxSteps: 200000, Log: logOn, GOMAXPROCS: x.gomax}, func() {
		// a reused object gives the harness a handle on the internal state (state keys)
		seed, _ := simdjson.Parse([]byte(`[1]`), nil)
		x.internal = simdjson.VerifInternal(seed)
		if x.doc.nd {
			pj, err = simdjson.ParseND(text, seed)
		} else {
			pj, err = simdjson.Parse(text, seed)
		}
		live = vsched.LiveOthers()
	})
	x.last = pj
	x.out = c07Outcome{Deadlock: x.res.Deadlock, Livelock: x.res.Livelock, Outlives: live}
	if x.res.Panic != nil {
		x.out.Panic = fmt.Sprint(x.res.Panic)
	}
	if err != nil {
		x.out.Err = err.Error()
	} else if pj != nil {
		x.out.Tape = tapeHash(pj)
	}
	return x.res.Pruned != ""
}

type c07Case struct {
	Doc     string `json:"doc"`
	Choices []int  `json:"choices"`
}

func c07Body(w *W) {
	docs := c07Docs(w.Thorough())
	bounds := 2
	if w.Thorough() {
		bounds = 3
	}
	slots, flushAt, chanCap := 0, 0, 0
	vsched.Run(zeroChooser{}, vsched.Options{}, func() { slots, flushAt, chanCap = simdjson.VerifGeometry() })
	w.Note(fmt.Sprintf("live geometry: %d ring slots, flush threshold %d, channel capacity %d", slots, flushAt, chanCap))
	w.Note("layer B: models/RingPipeline.tla (producer, consumer, FIFO channel of capacity C, ring of S slots, N buffers, optional consumer failure) is checked by TLC for the live S and C and the buffer count of four documents; the complete labelled state graph (-dump dot,actionlabels) is read back and every transition is replayed on the implementation by steering the controlled scheduler along a shortest model path to it: at every step the enabled threads of the implementation must equal the processes the model enables, and the outcome must equal the default schedule's")
	w.Note(fmt.Sprintf("layer A: stateless exploration of the real (source-instrumented) code: every interleaving of stage-1 producer and stage-2 consumer with <= %d preemptions (unpruned), and every interleaving outright with exact state-key pruning, per document", bounds))

	buffersOf := map[string]int{}
	canonOf := map[string]c07Outcome{}
	for di, doc := range docs {
		x := &c07Exec{doc: doc}
		// canonical schedule (0 preemptions), checked against the independent model
		x.exec(zeroChooser{}, true)
		canon := x.out
		buffers := 0
		for _, ev := range x.res.Log {
			if ev.What == "send" || ev.What == "send(handoff)" {
				buffers++
			}
		}
		// sends seen: 2 of the small seed parse (its buffer + terminator), N data buffers, 1 terminator
		buffersOf[doc.name] = buffers - 3
		canonOf[doc.name] = canon
		var verdict ref.Verdict
		var want []*ref.Node
		if doc.nd {
			want, verdict = ref.ParseND(doc.text)
		} else {
			var d *ref.Node
			d, verdict = ref.Parse(doc.text)
			want = []*ref.Node{d}
		}
		if w.Shard == 0 {
			w.res.Evaluations++
			w.res.Validated++
			bad := ""
			switch {
			case canon.Deadlock || canon.Livelock || canon.Panic != "" || canon.Outlives > 0:
				bad = canon.String()
			case verdict == ref.Valid && canon.Err != "":
				bad = "content is valid but the default schedule fails: " + canon.Err
			case verdict == ref.Invalid && canon.Err == "":
				bad = "content is invalid but the default schedule succeeds"
			case verdict == ref.Valid:
				var got []*ref.Node
				var werr error
				vsched.Run(zeroChooser{}, vsched.Options{}, func() { got, werr = walkFlat(x.last) })
				if werr != nil || renderDocs(got, renderExact) != renderDocs(want, renderExact) {
					bad = fmt.Sprintf("default schedule exposes a different document than the content dictates (%v)", werr)
				}
			}
			if bad != "" {
				enc, _ := json.Marshal(c07Case{Doc: doc.name})
				w.Violate(Violation{Harness: "C07-canonical", Fingerprint: "C07/canonical/" + doc.name, What: bad, Case: enc, CaseText: doc.name + " default schedule", Config: "pb=0"})
			}
			w.Note(fmt.Sprintf("%s: %d bytes, %d index buffers sent, model verdict %v, canonical outcome %s", doc.name, len(doc.text), buffers-3, verdict, canon))
			w.Max("max_buffers", int64(buffers-3))
		}
		outcomes := map[c07Outcome]int{}
		check := func(kind string) func(choices []int, trace []vexp.Point) {
			return func(choices []int, trace []vexp.Point) {
				w.res.Evaluations++
				w.res.Validated++
				outcomes[x.out]++
				for id, q := range x.res.MaxQueued {
					if id == 0 {
						w.Max("max_queue_on_index_channel", int64(q))
					}
				}
				pre := 0
				for _, p := range trace {
					if p.Costly && p.Chosen != 0 {
						pre++
					}
				}
				w.Max("max_preemptions_in_one_schedule", int64(pre))
				w.Max("max_points_in_one_schedule", int64(len(trace)))
				if x.out != canon {
					enc, _ := json.Marshal(c07Case{Doc: doc.name, Choices: choices})
					fp := "outcome-differs"
					if x.out.Deadlock {
						fp = "deadlock"
					} else if x.out.Livelock {
						fp = "livelock"
					} else if x.out.Panic != "" {
						fp = "panic"
					} else if x.out.Outlives > 0 {
						fp = "stage-outlives-call"
					}
					w.Violate(Violation{Harness: "C07-" + kind, Fingerprint: "C07/" + fp + "/" + doc.name, What: fmt.Sprintf("schedule with %d preemptions gives %s; the default schedule (and the content) give %s", pre, x.out, canon), Case: enc, CaseText: fmt.Sprintf("%s schedule %v", doc.name, compressChoices(choices)), Config: kind})
				}
			}
		}
		// (i) preemption-bounded, unpruned, sharded over all workers
		e := &vexp.Explorer{Bound: bounds, Shard: w.Shard, N: w.N, Stop: func() bool { return w.Expired() || w.TooManyViolations() },
			Exec:  func(ch vsched.Chooser) bool { w.cur.Set("C07-bounded/"+doc.name, "", nil); return x.exec(ch, false) },
			Check: check("bounded")}
		e.Explore()
		w.res.States += e.Stats.Points
		w.res.Transitions += e.Stats.Transitions
		w.Count("schedules_preemption_bounded", e.Stats.Executions)
		if e.Stats.Capped {
			w.res.Capped = true
		}
		// the same with runtime.GOMAXPROCS(0) == 1 (the outcome must not depend on it)
		if di%w.N == (w.Shard+3)%w.N {
			x1 := &c07Exec{doc: doc, gomax: 1}
			e1 := &vexp.Explorer{Bound: 1, N: 1, Stop: func() bool { return w.Expired() || w.TooManyViolations() },
				Exec: func(ch vsched.Chooser) bool {
					w.cur.Set("C07-gomaxprocs1/"+doc.name, "", nil)
					return x1.exec(ch, false)
				},
				Check: func(choices []int, trace []vexp.Point) {
					w.res.Evaluations++
					w.res.Validated++
					if x1.out != canon {
						enc, _ := json.Marshal(c07Case{Doc: doc.name, Choices: choices})
						w.Violate(Violation{Harness: "C07-gomaxprocs1", Fingerprint: "C07/gomaxprocs1/" + doc.name, What: fmt.Sprintf("with GOMAXPROCS=1: %s; with GOMAXPROCS=4 (default schedule): %s", x1.out, canon), Case: enc, CaseText: doc.name + " GOMAXPROCS=1 schedule " + compressChoices(choices), Config: "gomaxprocs=1"})
					}
				}}
			e1.Explore()
			w.Count("schedules_gomaxprocs_1", e1.Stats.Executions)
			w.res.Transitions += e1.Stats.Transitions
		}
		// (ii) unbounded with state-key pruning: one document per worker
		if di%w.N == w.Shard {
			e2 := &vexp.Explorer{Bound: -1, N: 1, Stop: func() bool { return w.Expired() || w.TooManyViolations() },
				StateKey: func() uint64 {
					return vsched.CurrentKey(func(add func(uint64)) { simdjson.VerifDigest(x.internal, add) })
				},
				Exec:  func(ch vsched.Chooser) bool { w.cur.Set("C07-unbounded/"+doc.name, "", nil); return x.exec(ch, false) },
				Check: check("unbounded")}
			e2.Explore()
			w.res.States += e2.Stats.States
			w.res.Transitions += e2.Stats.Transitions
			w.Count("schedules_unbounded_complete", e2.Stats.Executions-e2.Stats.Pruned)
			w.Count("schedules_unbounded_pruned", e2.Stats.Pruned)
			w.Count("distinct_states_unbounded", e2.Stats.States)
			if e2.Stats.Capped {
				w.res.Capped = true
			}
		}
		for o := range outcomes {
			w.Distinct(hashBytes([]byte(doc.name + o.String())))
		}
		if len(outcomes) > 1 {
			w.Count("documents_with_more_than_one_outcome", 1)
		}
	}
	// layer B: TLA+ protocol model checked by TLC, every transition replayed on the code
	c07LayerB(w, docs, slots, chanCap, buffersOf, canonOf)
	w.Sample("schedule sample: D4-stage2-error-first-buffer with the consumer preempted right after its first receive and the producer run to completion")
}

type zeroChooser struct{}

func (zeroChooser) Choose(n int, preempt bool, kind string) int { return 0 }

func compressChoices(c []int) string {
	var sb strings.Builder
	for i, v := range c {
		if v != 0 {
			fmt.Fprintf(&sb, "@%d→%d ", i, v)
		}
	}
	if sb.Len() == 0 {
		return "(all default)"
	}
	return sb.String()
}

type prefixChooser struct {
	p []int
	i int
}

func (c *prefixChooser) Choose(n int, preempt bool, kind string) int {
	v := 0
	if c.i < len(c.p) {
		v = c.p[c.i]
	}
	c.i++
	if v >= n {
		panic(fmt.Sprintf("replay diverged: choice %d of %d", v, n))
	}
	return v
}

func c07Replay(v *Violation) string {
	var cs c07Case
	if err := json.Unmarshal(v.Case, &cs); err != nil {
		return "cannot decode case"
	}
	for _, doc := range c07Docs(true) {
		if doc.name != cs.Doc {
			continue
		}
		x := &c07Exec{doc: doc}
		x.exec(zeroChooser{}, false)
		canon := x.out
		if v.Config == "gomaxprocs=1" {
			x.gomax = 1
		}
		x.exec(&prefixChooser{p: cs.Choices}, false)
		if x.out.Deadlock || x.out.Livelock || x.out.Panic != "" || x.out.Outlives > 0 {
			return "FAIL " + x.out.String()
		}
		_, verdict := ref.Parse(doc.text)
		if doc.nd {
			_, verdict = ref.ParseND(doc.text)
		}
		if (verdict == ref.Valid && x.out.Err != "") || (verdict == ref.Invalid && x.out.Err == "") {
			return fmt.Sprintf("FAIL content is %v but the schedule gives %s", verdict, x.out)
		}
		if x.out != canon {
			return fmt.Sprintf("FAIL schedule gives %s, default schedule gives %s", x.out, canon)
		}
		return "OK same outcome as the default schedule: " + canon.String()
	}
	return "unknown document"
}

func init() {
	register(&check{
		prop: "C07", name: "pipeline-schedules", level: "model_checking",
		rule:   "Stateless model checking of the implementation: the package is source-instrumented (cmd/vinstr) so every go statement, channel operation, select, WaitGroup and atomic operation is a scheduling point of a controlled scheduler (vsched) that runs one thread at a time; for each of 10 (11) documents above the 8 KiB threshold (valid, stage-2 error early/late, stage-1 error early/late, both, NDJSON, no-structurals tail, just above threshold; 6 to 40 index buffers) every interleaving of producer and consumer with at most 2 (thorough 3) preemptions is executed, and additionally every interleaving outright with pruning on an exact state key (thread progress, channel contents, tape words, cursor). Oracle: outcome (error or exact tape) equals the default schedule's, which is itself checked against the independent grammar model and reference tree; no deadlock, no livelock, and both stages have finished when the call returns (no goroutine of the call outlives it). states=scheduling points visited (bounded) + distinct state keys (unbounded), transitions=branches pushed, traces_validated=complete schedules judged; distinct_nontrivial=distinct (document, outcome) pairs.",
		assume: []string{"interleaving granularity = synchronisation operations; plain-memory races and weak memory are outside this exploration (supported by the free-running -race pass of C20)", "assembly kernels and everything between two scheduling points are atomic steps"},
		body:   c07Body,
		replay: c07Replay,
	})
}
