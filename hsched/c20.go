//go:build vsched_harness

package main

import (
	"encoding/json"
	"fmt"
	"strings"

	simdjson "github.com/minio/simdjson-go"

	"verif/vexp"
	"verif/vsched"
)

// One operation a goroutine performs on its own objects. Every op returns a string that
// captures everything the goroutine can observe from it.
type c20Op struct {
	name string
	run  func(id int) string
}

var c20Small = []string{`{"a":[1,"x"],"b":{"c":null},"id":0}`, `["second goroutine",2.5,true,{"k":"v"},1]`, `{"third":[3,3,3],"s":"three"}`}

func c20Async(id int) []byte {
	var sb strings.Builder
	sb.WriteString("[")
	for i := 0; i < 900; i++ {
		fmt.Fprintf(&sb, `{"g":%d,"i":%d,"s":"v%d"},`, id, i, i*(id+3))
	}
	sb.WriteString("0]")
	return []byte(sb.String())
}

func renderOf(pj *simdjson.ParsedJson, err error) string {
	if err != nil {
		return "ERR " + err.Error()
	}
	docs, werr := walkFlat(pj)
	if werr != nil {
		return "UNREADABLE " + werr.Error()
	}
	return renderDocs(docs, renderExact)
}

var c20Blobs [3][4][]byte // per goroutine id, per mode

func c20Ops() []c20Op {
	ser := func(mode simdjson.CompressMode) func(id int) string {
		return func(id int) string {
			pj, err := simdjson.Parse([]byte(c20Small[id]), nil)
			if err != nil {
				return "ERR " + err.Error()
			}
			s := simdjson.NewSerializer()
			s.CompressMode(mode)
			b := s.Serialize(nil, *pj)
			d := simdjson.NewSerializer()
			out, derr := d.Deserialize(b, nil)
			// the serialized bytes themselves are part of what the goroutine observes
			return fmt.Sprintf("blob %d bytes %016x -> %s", len(b), hashBytes(b), renderOf(out, derr))
		}
	}
	deAfterReject := func(mode int) func(id int) string {
		return func(id int) string {
			// one Serializer: a blob whose values block has a bad type byte (rejected after the
			// tags decompressor was started), then a valid blob
			good := c20Blobs[id][mode]
			bad := append([]byte(nil), good...)
			if f := varintFields(bad); len(f) > 9 && f[9][0]+f[9][1] < len(bad) {
				bad[f[9][0]+f[9][1]] = 7
			}
			d := simdjson.NewSerializer()
			_, err1 := d.Deserialize(bad, nil)
			out, err2 := d.Deserialize(c20Blobs[(id+1)%3][0], nil)
			return fmt.Sprintf("rejected=%v then %s", err1 != nil, renderOf(out, err2))
		}
	}
	de := func(mode int) func(id int) string {
		return func(id int) string {
			d := simdjson.NewSerializer()
			out, err := d.Deserialize(c20Blobs[id][mode], nil)
			return renderOf(out, err)
		}
	}
	return []c20Op{
		{"Parse(small)", func(id int) string { return renderOf(simdjson.Parse([]byte(c20Small[id]), nil)) }},
		{"Parse(async)", func(id int) string {
			pj, err := simdjson.Parse(c20Async(id), nil)
			if err != nil {
				return "ERR " + err.Error()
			}
			return fmt.Sprintf("tape %016x", tapeHash(pj))
		}},
		{"ParseND", func(id int) string {
			return renderOf(simdjson.ParseND([]byte(c20Small[id]+"\n"+c20Small[(id+1)%3]), nil))
		}},
		{"Clone+SetString", func(id int) string {
			pj, err := simdjson.Parse([]byte(c20Small[id]), nil)
			if err != nil {
				return "ERR " + err.Error()
			}
			c := pj.Clone(nil)
			it, nerr := navigate(c, vpath{0, 0}, 1)
			if nerr == nil {
				if it.Type() == simdjson.TypeArray || it.Type() == simdjson.TypeObject {
					it.SetNull()
				} else {
					it.SetString(fmt.Sprint("edited by ", id))
				}
			}
			return renderOf(pj, nil) + " / " + renderOf(c, nil)
		}},
		{"Serialize(fast)+Deserialize", ser(simdjson.CompressFast)},
		{"Serialize(default)+Deserialize", ser(simdjson.CompressDefault)},
		{"Serialize(best)+Deserialize", ser(simdjson.CompressBest)},
		{"Deserialize(blob fast)", de(1)},
		{"Deserialize(blob best)", de(3)},
		{"Deserialize(rejected best blob); Deserialize(valid) on one Serializer", deAfterReject(3)},
		{"ParseNDStream(two lines, unbuffered result channel, values handed back)", func(id int) string {
			res := vsched.MakeChan(make(chan simdjson.Stream))
			reuse := vsched.MakeChan(make(chan *simdjson.ParsedJson, 2))
			simdjson.ParseNDStream(strings.NewReader(c20Small[id]+"\n"+c20Small[(id+1)%3]+"\n"), res, reuse)
			var sb strings.Builder
			for {
				v, ok := vsched.Recv2(res)
				if !ok {
					break
				}
				if v.Error != nil {
					sb.WriteString(" error:" + v.Error.Error())
					continue
				}
				sb.WriteString(" value:" + renderOf(v.Value, nil))
				vsched.Select(true, vsched.SendCase(reuse, v.Value))
			}
			return sb.String() + " closed"
		}},
		{"Parse; Reset; Deserialize into it; Parse(another)", func(id int) string {
			// an object its owner has reset is still the owner's: it is refilled as a Deserialize
			// destination while this goroutine (and others) go on parsing without reuse
			pj, err := simdjson.Parse([]byte(c20Small[id]), nil)
			if err != nil {
				return "ERR " + err.Error()
			}
			pj.Reset()
			d := simdjson.NewSerializer()
			out, derr := d.Deserialize(c20Blobs[(id+1)%3][0], pj)
			other, perr := simdjson.Parse([]byte(c20Small[(id+2)%3]), nil)
			return renderOf(out, derr) + " / " + renderOf(other, perr) + " / " + renderOf(out, derr)
		}},
		{"traverse+marshal", func(id int) string {
			pj, err := simdjson.Parse([]byte(c20Small[id]), nil)
			if err != nil {
				return "ERR " + err.Error()
			}
			it := pj.Iter()
			js, merr := it.MarshalJSON()
			return fmt.Sprintf("%s %v", js, merr)
		}},
	}
}

type c20Case struct {
	Progs   [][]int `json:"programs"` // per goroutine: op indexes
	Choices []int   `json:"choices"`
	Free    bool    `json:"free_scheduling_inside_families,omitempty"`
	Cold    bool    `json:"cold_start,omitempty"`
}

func (c c20Case) text(ops []c20Op) string {
	var parts []string
	for g, p := range c.Progs {
		var names []string
		for _, o := range p {
			names = append(names, ops[o].name)
		}
		parts = append(parts, fmt.Sprintf("goroutine %d: %s", g, strings.Join(names, "; ")))
	}
	return strings.Join(parts, " || ")
}

// c20Exec runs the programs concurrently (one managed thread each) and returns what each
// goroutine observed.
func c20Exec(ch vsched.Chooser, ops []c20Op, progs [][]int, free, cold bool) ([]string, vsched.Result) {
	out := make([]string, len(progs))
	res := vsched.Run(ch, vsched.Options{MaxSteps: 200000, PoolPrefill: 1, Families: !free, ColdOnces: cold}, func() {
		simdjson.VerifTmpSize = 1 << 16 // chunk buffers of the stream operation (instrumented copy only)
		done := vsched.MakeChan(make(chan int, len(progs)))
		for g := range progs {
			g := g
			vsched.Go(func() {
				var sb strings.Builder
				for _, o := range progs[g] {
					sb.WriteString(ops[o].run(g))
					sb.WriteString(" ;; ")
				}
				out[g] = sb.String()
				vsched.Send(done, g)
			})
		}
		for range progs {
			vsched.Recv(done)
		}
	})
	return out, res
}

func c20Body(w *W) {
	ops := c20Ops()
	// blobs and the "running alone" reference results, computed under the default schedule
	vsched.Run(zeroChooser{}, vsched.Options{PoolPrefill: 1}, func() {
		for id := 0; id < 3; id++ {
			pj, err := simdjson.Parse([]byte(c20Small[id]), nil)
			if err != nil {
				w.Fatal("cannot parse %s", c20Small[id])
			}
			for m := 0; m < 4; m++ {
				s := simdjson.NewSerializer()
				s.CompressMode(simdjson.CompressMode(m))
				c20Blobs[id][m] = append([]byte(nil), s.Serialize(nil, *pj)...)
			}
		}
	})
	alone := map[string]string{}
	aloneOf := func(g int, prog []int) string {
		k := fmt.Sprint(g, prog)
		if v, ok := alone[k]; ok {
			return v
		}
		progs := make([][]int, g+1)
		progs[g] = prog
		out, _ := c20Exec(zeroChooser{}, ops, progs, false, false)
		alone[k] = out[g]
		return out[g]
	}
	pb := 1
	if w.Thorough() {
		pb = 2
	}
	var jobs [][][]int
	n := len(ops)
	for a := 0; a < n; a++ {
		for b := a; b < n; b++ {
			jobs = append(jobs, [][]int{{a}, {b}})
		}
	}
	// two-operation programs around the shared pools and the lazily built decoder
	for _, p := range [][]int{{4, 7}, {5, 8}, {6, 8}, {7, 4}, {1, 5}} {
		for _, q := range [][]int{{4, 7}, {6, 8}, {5, 4}, {1, 6}} {
			jobs = append(jobs, [][]int{p, q})
		}
	}
	if w.Thorough() {
		for a := 0; a < n; a += 2 {
			jobs = append(jobs, [][]int{{a}, {(a + 3) % n}, {(a + 5) % n}})
		}
	}
	w.Note(fmt.Sprintf("programs: every unordered pair of single operations over %d ops {Parse small/async, ParseND, Clone+edit, Serialize x3 modes + Deserialize, Deserialize x2 blobs, traverse+marshal}, 20 pairs of two-operation programs around the shared pools (thorough: + 3-goroutine triples); each goroutine works on its own documents; every interleaving with <= %d preemptions, pool answers (recycled vs new) enumerated; pools start each execution holding one object; plus 3 program sets around Deserialize(rejected blob)+Deserialize(valid blob) on one Serializer and 1 around ParseNDStream with scheduling inside the families free as well (one goroutine: <= %d preemptions, two: <= %d); plus 6 program sets around NewSerializer/Serialize/Deserialize started cold (every sync.Once of the package reset before the execution, so the shared zstd decoder is built inside it)", n, pb, pb, pb-1))
	// the same programs with scheduling inside each family free as well (a goroutine the
	// library leaves behind can only be ordered against its own family's later calls here)
	nFam := len(jobs)
	rej, strm := -1, -1
	for i, o := range ops {
		if strings.HasPrefix(o.name, "ParseNDStream") {
			strm = i
		}
		if strings.HasPrefix(o.name, "Deserialize(rejected") {
			rej = i
		}
	}
	jobs = append(jobs, [][]int{{rej}}, [][]int{{rej}, {7}}, [][]int{{rej}, {rej}}, [][]int{{strm}})
	// cold start: the package's lazily built shared state (sync.Once) is initialised again
	// inside the execution, by whichever goroutine gets there first
	nCold := len(jobs)
	jobs = append(jobs, [][]int{{7}, {7}}, [][]int{{7}, {8}}, [][]int{{4}, {7}}, [][]int{{6}, {6}}, [][]int{{rej}, {7}}, [][]int{{5, 7}, {7, 4}})
	for ji, progs := range jobs {
		if !w.Mine() {
			continue
		}
		free := ji >= nFam && ji < nCold
		cold := ji >= nCold
		var want []string
		for g, p := range progs {
			want = append(want, aloneOf(g, p))
		}
		var out []string
		var res vsched.Result
		bound := pb
		if free && len(progs) > 1 {
			bound = pb - 1 // all thread switches at blocking/exit points stay free
		}
		e := &vexp.Explorer{Bound: bound, N: 1, MaxExec: 60000, Stop: func() bool { return w.Expired() || w.TooManyViolations() }}
		e.Exec = func(ch vsched.Chooser) bool {
			enc, _ := json.Marshal(c20Case{Progs: progs, Free: free, Cold: cold})
			w.cur.Set("C20-interleave", "", enc)
			out, res = c20Exec(ch, ops, progs, free, cold)
			return false
		}
		e.Check = func(choices []int, trace []vexp.Point) {
			w.res.Evaluations++
			w.res.Validated++
			w.Max("max_points_in_one_schedule", int64(len(trace)))
			w.Max("max_threads", int64(res.Threads))
			bad, fp := "", ""
			switch {
			case res.Panic != nil:
				bad, fp = fmt.Sprint("panic: ", res.Panic), "panic"
			case res.Deadlock:
				bad, fp = fmt.Sprintf("deadlock: %v", res.Blocked), "deadlock"
			case res.Livelock:
				bad, fp = "step horizon exceeded", "livelock"
			default:
				for g := range progs {
					if out[g] != want[g] {
						bad, fp = fmt.Sprintf("goroutine %d observed %s; running alone it observes %s", g, clip(out[g]), clip(want[g])), "result-differs"
						break
					}
				}
			}
			w.Distinct(hashBytes([]byte(fmt.Sprint(progs, out))))
			if bad != "" {
				c := c20Case{Progs: progs, Choices: choices, Free: free, Cold: cold}
				enc, _ := json.Marshal(c)
				w.Violate(Violation{Harness: "C20-interleave", Fingerprint: "C20/" + fp, What: bad, Case: enc, CaseText: c.text(ops) + " schedule " + compressChoices(choices), Config: fmt.Sprintf("pb<=%d", bound)})
			}
		}
		e.Explore()
		w.res.States += e.Stats.Points
		w.res.Transitions += e.Stats.Transitions
		w.Count("program_sets", 1)
		if e.Stats.Capped {
			w.Count("program_sets_capped_at_60000_schedules", 1)
			w.res.Capped = true
		}
	}
	w.Sample("goroutine 0: Serialize(default)+Deserialize || goroutine 1: Serialize(best)+Deserialize, goroutine 1 preempted between taking a zstd encoder from the pool and resetting it")
}

func c20Replay(v *Violation) string {
	var c c20Case
	if err := json.Unmarshal(v.Case, &c); err != nil {
		return "cannot decode"
	}
	ops := c20Ops()
	vsched.Run(zeroChooser{}, vsched.Options{PoolPrefill: 1}, func() {
		for id := 0; id < 3; id++ {
			pj, _ := simdjson.Parse([]byte(c20Small[id]), nil)
			for m := 0; m < 4; m++ {
				s := simdjson.NewSerializer()
				s.CompressMode(simdjson.CompressMode(m))
				c20Blobs[id][m] = append([]byte(nil), s.Serialize(nil, *pj)...)
			}
		}
	})
	out, res := c20Exec(&prefixChooser{p: c.Choices}, ops, c.Progs, c.Free, c.Cold)
	if res.Panic != nil || res.Deadlock || res.Livelock {
		return fmt.Sprintf("FAIL panic=%v deadlock=%v livelock=%v", res.Panic, res.Deadlock, res.Livelock)
	}
	for g, p := range c.Progs {
		progs := make([][]int, g+1)
		progs[g] = p
		al, _ := c20Exec(zeroChooser{}, ops, progs, false, false)
		if al[g] != out[g] {
			return fmt.Sprintf("FAIL goroutine %d observed %s, alone %s", g, clip(out[g]), clip(al[g]))
		}
	}
	return "OK every goroutine observed what it observes alone"
}

func init() {
	register(&check{
		prop: "C20", name: "independent-objects-concurrently", level: "model_checking",
		rule:   "Stateless model checking of the source-instrumented package: 2 (thorough also 3) goroutines each run a program of 1-2 operations on their own ParsedJson/Serializer values (Parse small/concurrent-path, ParseND, Clone+edit, Serialize in 3 compressed modes + Deserialize, Deserialize of 2 blobs, traverse+marshal), sharing only what the package shares (sync.Pools of s2/zstd coders, the lazily created zstd decoder behind a Once). Every interleaving of all their goroutines (incl. the stage-2 goroutine and the three compressor goroutines of each Serialize) with <= 1 (2) preemptions is executed, pool answers (recycled object vs new) enumerated as environment choices. Oracle: each goroutine observes exactly what it observes running alone; no deadlock/livelock/panic. A separate free-running pass of the same operations built with -race (N goroutines, real pools) supports data-race freedom; a race report there is a violation too. states=scheduling points, transitions=branches, traces_validated=schedules judged; distinct_nontrivial=distinct (programs, observations).",
		assume: []string{"plain-memory races are invisible to cooperative scheduling by construction: the auxiliary -race pass (sampling, not exhaustive) carries that part", "klauspost/compress internals are atomic black boxes; its own goroutines run unmanaged inside a step"},
		body:   c20Body,
		replay: c20Replay,
		post:   c20Post,
	})
}
