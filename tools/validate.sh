#!/bin/bash
# validates MANIFEST.json and every evidence file against the given schemas
cd "$(dirname "$0")/.."
python3-vt - <<'PY'
import json,jsonschema,glob
jsonschema.validate(json.load(open('MANIFEST.json')),json.load(open('/root/.vp/MANIFEST.schema.json')))
s=json.load(open('/root/.vp/EVIDENCE.schema.json'))
for f in sorted(glob.glob('evidence/*.json')):
    jsonschema.validate(json.load(open(f)),s)
    print('ok',f)
print('manifest ok')
PY
