#!/usr/bin/env python3
# tools/seedtable.py : print the markdown table of seeded changes from seeded/*/meta.json and README first lines
import json, os, re, sys
root = os.path.join(os.path.dirname(os.path.abspath(__file__)), "..", "seeded")
print("| id | change (first line of its README) | caught by quick check |")
print("|---|---|---|")
for d in sorted(os.listdir(root)):
    mp = os.path.join(root, d, "meta.json")
    if not os.path.exists(mp):
        continue
    m = json.load(open(mp))
    first = ""
    rp = os.path.join(root, d, "README.md")
    if os.path.exists(rp):
        for line in open(rp):
            line = line.strip().lstrip("#").strip()
            if line:
                first = line.replace("|", "\\|")
                break
    print("| %s | %s | %s |" % (d, first, ", ".join(m.get("caught_by_quick_checks", [])) or "NONE"))
