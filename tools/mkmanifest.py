#!/usr/bin/env python3
"""Regenerates /verif/MANIFEST.json from the table below (one entry per property)."""
import json, os

V = os.path.dirname(os.path.dirname(os.path.abspath(__file__)))

# id -> (technique, level text, level_note, design_ref) ; absent => not yet claimed
CLAIMED = {
    "C01": ("exhaustive enumeration of bounded input tries on the real Parse vs. an RFC 8259 grammar model",
            "Every byte string <= 6 (thorough 7) over a 15-byte alphabet, every token sequence <= 3 (4) over a 52-token alphabet (one token per value kind and per rejection branch) and <= 5 (6) over a 16-token core, every probe at every offset 0..130 relative to the 64-byte blocks, at every index around the 1408-entry flush of index buffers 1 and 2 and at total lengths 8192+-70 is parsed by the real code under all four kernel/string-mode configurations and compared with the grammar model (both directions of the iff). Bounded-exhaustive: a coverage statement over the stated alphabets and placements, which is what a for-all-inputs property needs and a test list cannot give.",
            "Trusted: ref/refjson.go (cross-checked against encoding/json in setup). Not covered: inputs outside the alphabets/carriers; multi-MiB inputs away from the internal boundaries.",
            "DESIGN.md 4.1"),
    "C02": ("exhaustive enumeration of bounded document space on the real parser + iterator API vs. ordered reference tree",
            "Every ordered tree with <= 4 (thorough 5) nodes over 8 scalar kinds and 3 keys (duplicates and empty key included) in 4 white-space layouts, every nesting depth 1..600 (+1000, 10000, thorough 100000) in three shapes, and every token kind on every index-buffer slot around the flush of buffers 1, 2 and 16/17 (ring wrap) is parsed under all four configs and read back through four combinations of the traversal APIs, the flat AdvanceInto walk and Interface(); each must equal the reference tree exactly (order, duplicates, bytes, number types).",
            "Trusted: reference parser/tree. Not covered: documents larger than the ladders, scalar values outside the alphabet (numbers/strings are C03/C04).",
            "DESIGN.md 4.2"),
    "C08": ("exhaustive enumeration of bounded line-sequence space on the real ParseND vs. per-line Parse and an NDJSON model",
            "Every sequence of <= 4 (thorough 5) lines over a 15-line alphabet (valid documents, invalid documents, blank and white-space-only lines) x {LF, CRLF} x {final newline or not}, root boundaries swept over every index-buffer slot around the flush edges of buffers 1, 2 and 16/17, the 8 KiB threshold and a 30000-line input, under all four configs. Oracle is the property's own definition evaluated with the real Parse per line, cross-checked with an independent model, plus tree equality of the exposed roots through all walkers.",
            "Inputs without any non-blank line are treated as outside the claim. Line alphabet is finite.",
            "DESIGN.md 4.8"),
    "C13": ("explicit-state BFS over Set* operation histories on the real tape vs. edit model",
            "Breadth-first search over all histories of Set* calls to depth 2 (thorough 3) from 8 seed documents in both string modes: every value position x 9 calls x 3 navigation routes; each successor is produced by the real call on a clone; states deduplicated on exact tape+string bytes. Every reached state is read back through all traversal APIs, lookups, MarshalJSON (root, inner, Array, Elements) and a serialize round trip and compared with the edit model; disallowed calls must error and leave the bytes unchanged.",
            "Trusted: edit model (type gates from the doc comments). Keys and root words are not Set* targets.",
            "DESIGN.md 4.13"),
    "C14": ("explicit-state BFS over deletion/replacement histories on the real tape vs. delete model",
            "Breadth-first search to depth 2 (thorough 3) over Object/Array.DeleteElems with every member subset (<= 2^5) in each call form (predicate, filter, both, both nil) through 3 navigation routes, SetNull on containers and interleaved replacements. Oracles: callback protocol (each member once, in order, right key and value) and, in every reached state, agreement of Advance, AdvanceIter, AdvanceInto, ForEach, NextElement(Bytes), Object.Parse, Interface/Map, FindKey/FindPath, MarshalJSON (Iter, Array, Elements) and a serialize round trip with the model.",
            "Trusted: delete model. Filter forms only on objects with unique keys (documented precondition).",
            "DESIGN.md 4.14"),
    "C17": ("exhaustive enumeration of produced tapes checked against a tape-format invariant checker",
            "Every tape the real Parse/ParseND produces for the bounded document space of C02 and the accepted inputs of C08's line-sequence space under all four configs, and every tape obtained by Deserialize(Serialize(.)) in all four modes from every state of the delete/replace history graph (depth 1, thorough 2), is checked against the documented format: root pairs, start/end offsets, nesting, key/value alternation, in-range strings, payload words, strict NOP runs after Deserialize.",
            "Trusted: ref/reftape.go as a transcription of README.md's tape description.",
            "DESIGN.md 4.17"),
    "C03": ("exhaustive enumeration of bounded number-literal lattices on the real parser vs. exact math/big classifier",
            "All grammar strings <= 8 (thorough 9) characters over {0 1 2 5 9 - + . e E} (walked through the number DFA), +-300 neighbourhoods of every int64/uint64/2^53/10^k/max-float boundary in 7 spellings, digit ladders 1..25, the exact decimal midpoint between adjacent doubles for every binade x 8 mantissas and +-1 in its last digit (round-half-even cases, ~1100-digit literals), and a decimal lattice mantissa 1..3000 (thorough 30000) x exponent -330..310 x spellings; each as array element and as object value; type, bits and overflow flag compared with an exact classifier.",
            "Trusted: ref.ClassifyNumber (math/big), cross-checked with strconv. Finite lattices, not all decimal literals.",
            "DESIGN.md 4.3"),
    "C04": ("exhaustive enumeration of the quantifier's string spaces on the real parser vs. reference unescaper",
            "All 65536 \\u units x 16 hex-case masks, all 1048576 surrogate pairs (values and keys), every byte after a backslash x 71 positions x 4 paddings, every byte in every hex position, every Unicode scalar raw, lengths 0..4096 x 64 start offsets x escape first/last, 10 escape kinds at every position of every length <= 66 (thorough 130) x 64 offsets, backslash runs 1..9 across block edges on both kernels; copy and no-copy modes; byte-exact comparison with the reference unescaper.",
            "Trusted: reference unescaper. Lone surrogates / invalid UTF-8 are out of claim (must only not crash).",
            "DESIGN.md 4.4"),
    "C18": ("exhaustive enumeration of bounded float64 lattices on the real formatter vs. encoding/json + bit-exact parse-back",
            "Float32 patterns widened (stride 61 quick, all 2^32 thorough), doubles with 12 free leading/trailing mantissa bits x all exponents x signs (50 M), nearest doubles of a 4-digit (thorough 5-digit) decimal lattice x all exponents, powers of ten/two +-4 ulp, sparse subnormals, scaled integers, +-16 ulp around the 1e-6/1e21 format switches; output must equal encoding/json byte for byte, parse back to the same bits, and (1/64) have no shorter round-tripping decimal. Bounded-lattice claim: the 2^64 space is not enumerated.",
            "Trusted: Go's encoding/json + strconv. Not all 2^64 patterns.",
            "DESIGN.md 4.18"),
    "C10": ("exhaustive enumeration of documents and edit-history states; real MarshalJSON vs. grammar model, reference tree and re-parse fixed point",
            "Every document of the C02 space, every accepted input of the C08 line-sequence space (both string modes), strings with each byte 0x00..0x7f in four placements, and every state of the replace/delete history graph (depth 1, thorough 2) is marshalled from the root iterator, from a restricted iterator on every inner value (capped at 240 positions on very large documents), from Array/Elements and from ParsedJson.ForEach iterators. Output must be valid JSON, denote the same ordered document (numbers numerically equal) and be a byte-exact fixed point of parse+marshal. SetFloat(NaN/+-Inf) at every position: every covering marshal call errors with no bytes.",
            "Trusted: grammar model and reference tree. Advance-positioned (unrestricted) iterators are not 'inner value' iterators (their scope is the rest of the container).",
            "DESIGN.md 4.10"),
    "C12": ("exhaustive enumeration of bounded document/key/path/filter space on the real lookup APIs vs. reference-tree lookups and exact range arithmetic",
            "Every object of every tree with <= 4 (thorough 5) nodes over keys {a,b,ab,ba,''} (duplicates included): FindKey for 7 probe keys (two absent, one of equal length), FindPath and Iter.FindElement for all 399 paths of length <= 3 over the probes, ForEach with all 128 filter subsets and nil, Parse/Lookup/Map. Every array of <= 2 elements over an 80-literal numeric boundary lattice (2^53, 2^63, 2^64, -2^63 and neighbouring integers and doubles as int/uint/float spellings) plus non-numeric fillers through Int/Uint/Float/Interface and AsInteger/AsUint64/AsFloat/AsString/AsStringCvt, against exact math/big range arithmetic.",
            "Floats in (-1,0) to uint are either-outcome. Filters only on objects with unique keys.",
            "DESIGN.md 4.12"),
    "C11": ("exhaustive enumeration of bounded Serialize/Deserialize/mode-switch histories on reused objects; asm blobs re-read by a noasm build",
            "Every history of <= 3 operations over 56+ operations {Serialize(7 small tapes incl. ND, edited, deleted-from, all number types, no-copy), CompressMode(4), Deserialize(last blob or any pre-made blob of any tape x mode into nil / reused / previously larger destination)} on one reused Serializer and destination; after each Serialize an independent Serializer must read the blob back, after each Deserialize the result must denote the source tape exactly (ordered tree, number types, float bits and flags, strict tape format). Big tapes beyond the 64 Ki tag and 64 KiB value flush blocks and with colliding string-hash buckets go through all 16 mode pairs. All pre-made blobs are re-read by a binary built with -tags noasm.",
            "klauspost/compress as black box. Depth-3 bound on histories; tape alphabet finite.",
            "DESIGN.md 4.11"),
    "C19": ("exhaustive enumeration of bounded corrupt-frame spaces on the real Deserialize (trivial model: no panic / hang; result traversable)",
            "G1: every uncompressed frame with tape size 0..4, <= 3 (thorough 4) tags over 16 tag bytes, all per-tag value options (0, wrap-to-0, tape size, 2^63, 2^64-1, ...), value count -8/exact/+8, message empty/3 bytes (3.5 M frames). G2: the complete single-edit closure (every truncation, every byte x 256 values, deletion, duplication) and all two-blob splices of valid blobs of 7 tapes in 4 modes (4 M mutants). Each is deserialized with fresh and with long-lived objects; accepted results are traversed by every walker, lookup, bulk accessor and MarshalJSON under step budgets; a watchdog turns a stuck case into a replayed, confirmed violation.",
            "Frames declaring sizes (incl. zstd content/window size) above 2^24 are out of claim and skipped (counted).",
            "DESIGN.md 4.19"),
    "C05": ("exhaustive enumeration of bounded adversarial input spaces on the real Parse/ParseND (trivial model: returns, no panic/fault/leak, result traversable)",
            "All inputs of the C01 spaces, the complete single-edit closure of 20 seed documents (prefixes, suffixes, every byte x 256 values, deletions, insertions, swaps), 14 ladder shapes (unbalanced/balanced nesting, runs of commas/quotes/backslashes, dense valid and invalid arrays, early/late errors, dense NDJSON) at every n within 3 of 64/128/448/512/8192 and every multiple of the live flush threshold up to 17 plus 10^5 (10^6), and the C08 line space; Parse and ParseND, four configs, reused and fresh objects, inputs flush against PROT_NONE guard pages on both sides. Every accepted result is traversed by all walkers, lookups, bulk accessors and MarshalJSON under step budgets; goroutine count must return to baseline.",
            "Hang = 100 s without progress, confirmed by 3 replays. Interface() is skipped above nesting depth 3000 (quadratic memory, noted in DESIGN.md). Stage deadlock under adversarial schedules is C07's business.",
            "DESIGN.md 4.5"),
    "C06": ("differential model checking: exhaustive enumeration of bounded inputs and block shapes on both kernel families",
            "Whole parser: every input of the C01 spaces, of the C05 mutation closure (Parse and ParseND) and of the C08 line space under AVX-512 and AVX2 kernels: same outcome, identical Tape and Strings. Kernel level: both find_structural_bits_in_slice variants on 64-byte blocks with the last 5 (thorough 6) bytes enumerated over 10 byte classes x 3 fillers, two-block buffers with the first 5 (6) bytes of the second block enumerated, and every padded tail length 1..63 with 4 enumerated bytes, under 16 carried states x ndjson; indexes, counts, processed, carried, position and state words compared.",
            "Needs AVX-512F (present here); otherwise exhaustive:false and nothing compared.",
            "DESIGN.md 4.6"),
    "C15": ("exhaustive enumeration of bounded call histories on one reused object, compared with the same calls on fresh objects",
            "Every history of <= 3 operations over 34 ops: Parse on 9 documents (small and concurrent-path; success, stage-1 error, stage-2 error early/late, 20000-byte string) x copy/no-copy, ParseND on 4 documents x 2, three kinds of in-place edit of the current result, Deserialize of 3 blobs into the current object through a reused Serializer. After each reuse call, outcome and exact exposed document (flat walk, all walkers, marshal, tape format) must equal the same call with nil reuse.",
            "Stage interleaving of concurrent-path documents is left to the Go scheduler here (C07 explores it). Each call gets a private copy of its input (Deserialize into a reused object writes into its Message, which aliases the caller's buffer; observation recorded in DESIGN.md).",
            "DESIGN.md 4.15"),
    "C16": ("exhaustive enumeration of documents x input overwrites, and of bounded Clone/edit histories, on the real code vs. snapshots and per-object models",
            "Every document of the C02 space (2 layouts + ladders), 9 escape kinds at every position of every string length <= 70 (key and value) and every accepted C08 line sequence: parse with copying, snapshot all read/marshal/serialize APIs, overwrite the input with 5 patterns: snapshot unchanged; no-copy parse of an intact buffer gives the same snapshot. Every history of <= 3 operations over {4 edits x 3 positions on original or clones, Clone into nil or into any existing object} on 3 seeds x 2 string modes: every object equals its own model after every step and after the input buffer is overwritten.",
            "Stream-delivered values are checked in C09.",
            "DESIGN.md 4.16"),
    "C07": ("stateless model checking of the source-instrumented implementation under a controlled scheduler (all interleavings up to a preemption bound, and all interleavings with exact state-key pruning) + TLA+ protocol model checked by TLC whose every transition is replayed on the implementation",
            "Layer A: the scratch copy of the package is rewritten (cmd/vinstr) so that go/chan/select/WaitGroup/atomic operations are scheduling points of vsched (one thread runs at a time; a second point after every receive lets a writer overtake a reader that already owns a slot). For 10 (thorough 11) documents above 8 KiB needing 6..40 index buffers (valid, stage-2 error in the first / last buffer, stage-1 error early / late, both, NDJSON with blank lines, tail without structurals, just above the threshold; aperiodic content so a slot reused too early changes the outcome) every interleaving of producer and consumer with <= 2 (3) preemptions is executed unpruned, and every interleaving outright with pruning on an exact state key. Outcome must equal the default schedule's, which is checked against the grammar model and reference tree; deadlock, livelock, panics and a stage still running when the call returns are violations. Layer B: models/RingPipeline.tla (producer, consumer, FIFO channel, ring, optional consumer failure, at the scheduler's granularity) is checked by TLC for the live ring size and channel capacity and the buffer counts of four documents (invariants NoOverwriteBeforeConsumed, NoDeadlock; liveness BothTerminate); TLC's complete labelled state graph is read back and every one of its ~5000 transitions is replayed on the code by steering the scheduler along a shortest model path: at every step the enabled threads must equal the processes the model enables, and the outcome must equal the default schedule's. A TLC invariant violation for the live constants is reported as a violation.",
            "Granularity = synchronisation operations; kernels between two points are atomic; plain-memory races / weak memory are not modelled (free-running -race pass in C20 supports data-race freedom). Layer B binds the model to the code on four documents; for longer documents the model's verdict holds provided the code keeps following the protocol.",
            "DESIGN.md 4.7"),
    "C09": ("stateless model checking of the source-instrumented ParseNDStream under a controlled scheduler: deviation-bounded DFS (no state merging) crossed with exhaustively enumerated reader fragmentations, reader faults, EOF-with-data answers and reuse decisions",
            "Per stream (8 quick / 9 thorough: 1-4 documents, blank lines leading/between/doubled/trailing, CRLF, no final newline, empty, white-space only, six one-line documents): every single reader cut x 4 (8) configurations of GOMAXPROCS {1,3}, result-channel capacity {0,2}, recycle all/none; every pair (thorough: triple) of cuts in the base configuration; a reader fault after every byte count with and without data (thorough: x every single cut); the last bytes returned together with io.EOF; mixed recycle masks; real 10 MiB constant. For each environment vector every schedule of consumer, forwarder, reader and chunk parsers with <= 2 (thorough 3) deviations from the deterministic default scheduler is executed (a deviation = any non-default scheduling or pool answer); the six-chunk all-recycled scenario with <= 3 deviations; the smallest streams additionally with every interleaving (unbounded, state-key pruning). Stream-model oracle: documents in order, exactly one io.EOF, close, nothing after an error; fault: prefix + reader's error + close; kept values unchanged at the end.",
            "Deviation bound instead of all interleavings (an earlier all-interleavings search with state-key pruning proved unsound: see DESIGN.md 9). Chunk constant scaled to 64 bytes via a run-time knob for the exhaustive part. Plain-memory races: see C20 race pass.",
            "DESIGN.md 4.9"),
    "C20": ("stateless model checking of the source-instrumented package under a controlled scheduler (all interleavings between goroutine families up to a preemption bound, pool answers enumerated) + auxiliary free-running -race pass",
            "2 (thorough also 3) goroutines each run 1-2 operations on their own objects (Parse small / concurrent-path, ParseND, Clone+edit, Serialize in 3 compressed modes + Deserialize, Deserialize of 2 blobs, traverse+marshal): all 55 unordered pairs of single operations plus 20 pairs of two-operation programs around the shared pools. Scheduling points at every operation on an object two goroutine families share (package-level sync.Pools incl. a point after every Put, the Once, shared channels), at blocking and at thread exit; every interleaving with <= 1 (2) preemptions, recycled-vs-new pool answers enumerated, pools start with one pooled object. Each goroutine must observe exactly what it observes alone; no deadlock/livelock/panic. The claim 'free of data races' is carried by a separate free-running pass of the same operations (plus ParseNDStream) built with -race: a race report or result mismatch there is a violation.",
            "Scheduling inside one goroutine family (a Serialize and its three compressor goroutines) is deterministic, only the order of shared operations across families is explored. The -race pass samples. Cold-start race on the first NewSerializer in a process is not explored.",
            "DESIGN.md 4.20"),
}

PENDING_REASON = "check not built yet in this round (planned, see DESIGN.md section 8); not claimed until its machinery exists"

props = [json.loads(l) for l in open(os.path.join(V, "properties.jsonl"))]
checks, na = [], []
for p in props:
    i = p["id"]
    if i in CLAIMED:
        tech, text, note, ref = CLAIMED[i]
        checks.append({
            "property_id": i,
            "quick_cmd": "./run.sh %s quick" % i,
            "thorough_cmd": "./run.sh %s thorough" % i,
            "evidence_file": "/verif/evidence/%s.json" % i,
            "replay_cmd_template": "./run.sh replay {path}",
            "engine": "vharness",
            "level_claimed": {"category": "model_checking", "text": text, "design_ref": ref},
            "level_note": note,
            "technique": tech,
        })
    else:
        na.append({"property_id": i, "reason": PENDING_REASON})

m = {
    "version": 1,
    "setup_cmd": "./run.sh setup",
    "hooks": {
        "guard": "verif",
        "enable": "no hook code lives in /repo: run.sh copies the non-test sources of the working tree to a scratch dir, adds /verif/inpkg/*.go (white-box accessors compiled into package simdjson) and, for the schedule checks, rewrites chan/go/select/sync/atomic to the controlled scheduler (cmd/vinstr)",
        "baseline_off_cmd": "tools/baseline.sh /repo",
        "source_commits": [],
        "add_only": True,
    },
    "engines": [
        {"name": "vsched+vinstr+vexp", "path": "vsched/ cmd/vinstr/ vexp/ hsched/", "serves_properties": ["C07", "C09", "C20"],
         "kind_free_text": "source-to-source instrumenter + controlled cooperative scheduler + choice-tree explorer (preemption-bounded DFS with prefix replay, state-key pruning, sharding)"},
        {"name": "vharness", "path": "harness/", "serves_properties": [c["property_id"] for c in checks],
         "kind_free_text": "driver + sharded worker processes; bounded-exhaustive enumerators over inputs/histories run on the real code and compared with reference models in ref/"},
    ],
    "checks": checks,
    "not_applicable": na,
    "notes": "Exit codes: 0 held, 1 violation (VIOLATION line), 3 harness/oracle error. Known findings: known_findings.json.",
}
json.dump(m, open(os.path.join(V, "MANIFEST.json"), "w"), indent=1)
print("claimed:", [c["property_id"] for c in checks], "pending:", len(na))
