#!/usr/bin/env python3
"""Regenerates /verif/MANIFEST.json from the table below (one entry per property)."""
import json, os

V = os.path.dirname(os.path.dirname(os.path.abspath(__file__)))

# id -> (technique, level text, level_note, design_ref) ; absent => not yet claimed
CLAIMED = {
    "C01": ("exhaustive enumeration of bounded input tries on the real Parse vs. an RFC 8259 grammar model",
            "Every byte string <= 6 (thorough 7) over a 15-byte alphabet, every token sequence <= 3 (4) over a 52-token alphabet (one token per value kind and per rejection branch) and <= 5 (6) over a 16-token core, every probe at every offset 0..130 relative to the 64-byte blocks, at every index around the 1408-entry flush of index buffers 1 and 2 and at total lengths 8192+-70 is parsed by the real code under all four kernel/string-mode configurations and compared with the grammar model (both directions of the iff). Bounded-exhaustive: a coverage statement over the stated alphabets and placements, which is what a for-all-inputs property needs and a test list cannot give.",
            "Trusted: ref/refjson.go (cross-checked against encoding/json in setup). Not covered: inputs outside the alphabets/carriers; multi-MiB inputs away from the internal boundaries.",
            "DESIGN.md 4.1"),
}

PENDING_REASON = "check not built yet in this round (planned, see DESIGN.md section 8); not claimed until its machinery exists"

props = [json.loads(l) for l in open(os.path.join(V, "properties.jsonl"))]
checks, na = [], []
for p in props:
    i = p["id"]
    if i in CLAIMED:
        tech, text, note, ref = CLAIMED[i]
        checks.append({
            "property_id": i,
            "quick_cmd": "./run.sh %s quick" % i,
            "thorough_cmd": "./run.sh %s thorough" % i,
            "evidence_file": "/verif/evidence/%s.json" % i,
            "replay_cmd_template": "./run.sh replay {path}",
            "engine": "vharness",
            "level_claimed": {"category": "model_checking", "text": text, "design_ref": ref},
            "level_note": note,
            "technique": tech,
        })
    else:
        na.append({"property_id": i, "reason": PENDING_REASON})

m = {
    "version": 1,
    "setup_cmd": "./run.sh setup",
    "hooks": {
        "guard": "verif",
        "enable": "no hook code lives in /repo: run.sh copies the non-test sources of the working tree to a scratch dir, adds /verif/inpkg/*.go (white-box accessors compiled into package simdjson) and, for the schedule checks, rewrites chan/go/select/sync/atomic to the controlled scheduler (cmd/vinstr)",
        "baseline_off_cmd": "tools/baseline.sh /repo",
        "source_commits": [],
        "add_only": True,
    },
    "engines": [
        {"name": "vharness", "path": "harness/", "serves_properties": [c["property_id"] for c in checks],
         "kind_free_text": "driver + sharded worker processes; bounded-exhaustive enumerators over inputs/histories run on the real code and compared with reference models in ref/"},
    ],
    "checks": checks,
    "not_applicable": na,
    "notes": "Exit codes: 0 held, 1 violation (VIOLATION line), 3 harness/oracle error. Known findings: known_findings.json.",
}
json.dump(m, open(os.path.join(V, "MANIFEST.json"), "w"), indent=1)
print("claimed:", [c["property_id"] for c in checks], "pending:", len(na))
