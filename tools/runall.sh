#!/bin/bash
# runs every claimed check's quick (or $1) command in turn; prints exit code and wall time
cd "$(dirname "$0")/.."
tier=${1:-quick}
for id in $(python3 -c "import json;print(' '.join(c['property_id'] for c in json.load(open('MANIFEST.json'))['checks']))"); do
  t0=$(date +%s)
  out=$(./run.sh $id $tier 2>&1); rc=$?
  t1=$(date +%s)
  echo "$id rc=$rc $((t1-t0))s $(echo "$out" | grep -E "^$id $tier:" | cut -c1-160)"
  [ $rc -ne 0 ] && echo "$out" | grep -E "VIOLATION|HARNESS|what:" | head -5
done
