#!/bin/bash
# tools/seedeval.sh <Cxx> <A|B> [extra check ids...] : confirm a seeded change produced by a sub-agent and
# run the property's quick check against it. Works on a scratch copy of /repo (VERIF_SRC).
export GOFLAGS=-mod=mod GOPROXY=off GOSUMDB=off GOTOOLCHAIN=local
P=$1; V=$2; shift 2
SRC=/tmp/wt/$P/SEED/$V
[ -f "$SRC/patch.diff" ] || { echo "no patch at $SRC"; exit 2; }
W=$(mktemp -d /tmp/seedeval.XXXXXX)
trap 'rm -rf "$W"' EXIT
mkdir -p "$W/clean" "$W/mut"
(cd /repo && git archive HEAD) | tar -x -C "$W/clean"
(cd /repo && git archive HEAD) | tar -x -C "$W/mut"
(cd "$W/mut" && git init -q . && git apply "$SRC/patch.diff") || { echo "PATCH DOES NOT APPLY"; exit 2; }
(cd "$W/mut" && go build ./...) || { echo "DOES NOT BUILD"; exit 2; }
base=$(/verif/tools/baseline.sh "$W/mut" | head -1)
demo=$(ls "$SRC"/*_test.go "$SRC"/demo_test.go 2>/dev/null | head -1)
dres="no demo test file"
if [ -n "$demo" ]; then
  tname="^($(grep -o 'func Test[A-Za-z0-9_]*' "$demo" | sed 's/func //' | paste -sd'|'))\$"
  cp "$demo" "$W/clean/zz_seed_demo_test.go"; cp "$demo" "$W/mut/zz_seed_demo_test.go"
  (cd "$W/clean" && timeout 300 go test -vet=off -count=1 -run "$tname" . >"$W/clean.out" 2>&1); rc_clean=$?
  (cd "$W/mut" && timeout 300 go test -vet=off -count=1 -run "$tname" . >"$W/mut.out" 2>&1); rc_mut=$?
  rm -f "$W/clean/zz_seed_demo_test.go" "$W/mut/zz_seed_demo_test.go"
  dres="demo $tname: clean rc=$rc_clean, with change rc=$rc_mut"
fi
echo "== $P/$V: $base; $dres"
ids="$P $*"
caught=""
for id in $ids; do
  mkdir -p "$W/evidence"; out=$(cd "${VERIF_HOME:-/verif}" && VERIF_EVIDENCE_DIR="$W/evidence" VERIF_SRC="$W/mut" ./run.sh $id quick 2>&1); rc=$?
  echo "   check $id quick on the changed tree: rc=$rc  $(echo "$out" | grep -E "^$id quick:" | cut -c1-120)"
  echo "$out" | grep -E "VIOLATION|what:" | head -4 | cut -c1-260
  [ $rc -eq 1 ] && caught="$caught $id"
done
D=/verif/seeded/$P$V
mkdir -p "$D"
cp "$SRC/patch.diff" "$D/patch.diff"
[ -n "$demo" ] && cp "$demo" "$D/demo_test.go.txt"
[ -f "$SRC/README.md" ] && cp "$SRC/README.md" "$D/README.md"
python3 - "$D" "$P" "$V" "$base" "$dres" "$caught" <<'PY'
import json,sys
d,p,v,base,dres,caught=sys.argv[1:7]
json.dump({"breaks_property":p,"variant":v,"baseline_with_change":base,"demonstration":dres,
 "needs":"see README.md (written by the sub-agent that produced the change)",
 "ran":"tools/seedeval.sh %s %s (scratch copy of /repo HEAD + patch; baseline; demo with and without; ./run.sh <id> quick with VERIF_SRC)"%(p,v),
 "caught_by_quick_checks":caught.split()},open(d+"/meta.json","w"),indent=1)
PY
echo "   caught by:${caught:- NONE}"
