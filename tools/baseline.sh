#!/bin/bash
# Runs the repository's pinned baseline (guard off: plain go test) and checks that all 30
# stable tests of /root/.vp/BASELINE.json pass. Usage: tools/baseline.sh [repo-dir]
export GOFLAGS=-mod=mod GOPROXY=off GOSUMDB=off GOTOOLCHAIN=local
R=${1:-/repo}
cd "$R" || exit 3
go build ./... || { echo "BASELINE: build failed"; exit 1; }
go test -json -vet=off -count=1 -timeout 25m ./... 2>/dev/null > /tmp/baseline.$$.json
python3 - /tmp/baseline.$$.json <<'PY'
import json,sys
want=set(json.load(open('/root/.vp/BASELINE.json'))['stable_pass'])
got=set()
for l in open(sys.argv[1]):
    try: o=json.loads(l)
    except: continue
    if o.get('Action')=='pass' and o.get('Test'):
        got.add(o['Package']+'::'+o['Test'])
missing=sorted(want-got)
print("BASELINE: %d/%d stable tests pass"%(len(want&got),len(want)))
for m in missing: print("  MISSING",m)
sys.exit(1 if missing else 0)
PY
rc=$?
rm -f /tmp/baseline.$$.json
exit $rc
