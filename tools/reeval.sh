#!/bin/bash
# tools/reeval.sh <id>... : re-run the quick check(s) recorded in seeded/<id>/meta.json against seeded/<id>/patch.diff
# applied to a scratch copy of /repo HEAD (no baseline / demo run: those were confirmed when the change was kept).
# Prints "<id> <check> caught|MISSED". VERIF_HOME selects the harness copy (default /verif).
export GOFLAGS=-mod=mod GOPROXY=off GOSUMDB=off GOTOOLCHAIN=local
H=${VERIF_HOME:-/verif}
for id in "$@"; do
  D=/verif/seeded/$id
  W=$(mktemp -d /tmp/reeval.XXXXXX)
  (cd /repo && git archive HEAD) | tar -x -C "$W"
  if ! (cd "$W" && git init -q . && git apply "$D/patch.diff"); then echo "$id PATCH-DOES-NOT-APPLY"; rm -rf "$W"; continue; fi
  for c in $(python3 -c "import json;print(' '.join(json.load(open('$D/meta.json'))['caught_by_quick_checks'][:1]))"); do
    mkdir -p "$W.ev"
    (cd "$H" && VERIF_EVIDENCE_DIR="$W.ev" VERIF_SRC="$W" ./run.sh $c quick >/dev/null 2>&1); rc=$?
    [ $rc -eq 1 ] && echo "$id $c caught" || echo "$id $c MISSED rc=$rc"
  done
  rm -rf "$W" "$W.ev"
done
