module verif

go 1.22
