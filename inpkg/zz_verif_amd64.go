//go:build !noasm && !appengine && gc
// +build !noasm,!appengine,gc

package simdjson

// VerifGeometry returns the live ring geometry: slots, flush threshold, channel capacity.
func VerifGeometry() (slots, flushAt, chanCap int) {
	var pj internalParsedJson
	pj.Message = []byte("[]")
	_ = pj.parseMessage([]byte("[]"), false)
	return indexSlots, indexSizeWithSafetyBuffer, cap(pj.indexChans)
}

// VerifStage1 runs one stage-1 slice kernel with explicit carried state.
type VerifS1State struct {
	OddBackslash, InsideQuote, ErrorMask, PseudoPred, Carried, Position uint64
	IndexLen                                                            int
}

func VerifStage1(avx512 bool, buf []byte, st *VerifS1State, indexes *[indexSize]uint32, ndjson uint64) uint64 {
	if avx512 {
		return find_structural_bits_in_slice_avx512(buf, &st.OddBackslash, &st.InsideQuote, &st.ErrorMask, &st.PseudoPred, indexes, &st.IndexLen, &st.Carried, &st.Position, ndjson)
	}
	return find_structural_bits_in_slice(buf, &st.OddBackslash, &st.InsideQuote, &st.ErrorMask, &st.PseudoPred, indexes, &st.IndexLen, &st.Carried, &st.Position, ndjson)
}

const VerifIndexSize = indexSize

// VerifCountBuffers runs stage 1 alone (no consumer) and reports how many index buffers
// the message needs; the channel is drained by a helper goroutine.
func VerifCountBuffers(msg []byte, nd bool) (buffers int, ok bool) {
	var pj internalParsedJson
	pj.Message = msg
	pj.initialize(len(msg))
	if nd {
		pj.ndjson = 1
	}
	pj.indexChans = make(chan indexChan, indexSlots-2)
	pj.buffersOffset = ^uint64(0)
	done := make(chan int)
	go func() {
		n := 0
		for idx := range pj.indexChans {
			if idx.index == -1 {
				break
			}
			n++
		}
		done <- n
	}()
	ok = pj.findStructuralIndices()
	return <-done, ok
}

// VerifDigest feeds the plain (non-modelled) memory the two pipeline stages share, and
// the consumer's private progress, into a state key: tape words, string buffer length,
// current index-buffer cursor, scope depth.
func VerifDigest(in any, add func(uint64)) {
	pj, ok := in.(*internalParsedJson)
	if !ok || pj == nil {
		return
	}
	add(uint64(len(pj.Tape)))
	for _, v := range pj.Tape {
		add(v)
	}
	if pj.Strings != nil {
		add(uint64(len(pj.Strings.B)))
	}
	add(uint64(pj.indexesChan.index))
	add(uint64(pj.indexesChan.length))
	add(uint64(len(pj.containingScopeOffset)))
	add(pj.buffersOffset)
}

// VerifRingInfo reports the slot count and channel capacity of a live internal object.
func VerifRingInfo(in any) (slots, chanCap int) {
	pj, ok := in.(*internalParsedJson)
	if !ok || pj == nil || pj.indexChans == nil {
		return indexSlots, -1
	}
	return indexSlots, cap(pj.indexChans)
}
