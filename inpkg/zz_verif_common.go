package simdjson

// White-box accessors compiled into the scratch copy of the package by /verif/run.sh.
// They add nothing to /repo.

func VerifAppendFloat(dst []byte, f float64) ([]byte, error) { return appendFloat(dst, f) }

func VerifMemHash(b []byte) uint64 { return memHash(b) & stringmask }

func VerifParseNumber(buf []byte) (tag, val uint64) { return parseNumber(buf) }

func VerifEscapeBytes(dst, src []byte) []byte { return escapeBytes(dst, src) }

// VerifIterState exposes the cursor of an iterator (for fingerprints and state keys).
func VerifIterState(i *Iter) (off, addNext int, cur uint64, t Tag, tapeLen int) {
	return i.off, i.addNext, i.cur, i.t, len(i.tape.Tape)
}

// VerifIterAt positions an iterator as if Advance had just decoded the entry at tape index off.
func VerifIterAt(pj *ParsedJson, off int) Iter {
	it := Iter{tape: *pj, off: off}
	it.AdvanceInto()
	return it
}

// VerifInternal / VerifReattach let a harness keep re-using the internal part of a
// ParsedJson after a failed call (throughput only; see harness/c01.go).
func VerifInternal(pj *ParsedJson) any { return pj.internal }

func VerifReattach(pj *ParsedJson, in any) {
	if p, ok := in.(*internalParsedJson); ok {
		pj.internal = p
	}
}

// VerifTmpSize replaces the chunk-buffer constant of ParseNDStream in the instrumented
// scratch copy (run.sh rewrites `const tmpSize = 10 << 20` to `tmpSize := VerifTmpSize`).
var VerifTmpSize = 10 << 20
