CONSTANTS
  S = 16
  C = 14
  N = 21
  FailAt = 0
SPECIFICATION Spec
INVARIANTS NoOverwriteBeforeConsumed HoldsAtMostOne NoDeadlock
PROPERTIES BothTerminate
CHECK_DEADLOCK FALSE
