---- MODULE RingPipeline_TTrace_1791156857 ----
EXTENDS Sequences, TLCExt, Toolbox, Naturals, TLC, RingPipeline

_expression ==
    LET RingPipeline_TEExpression == INSTANCE RingPipeline_TEExpression
    IN RingPipeline_TEExpression!expression
----

_trace ==
    LET RingPipeline_TETrace == INSTANCE RingPipeline_TETrace
    IN RingPipeline_TETrace!trace
----

_inv ==
    ~(
        TLCGet("level") = Len(_TETrace)
        /\
        wg = (1)
        /\
        cur = (1)
        /\
        ppc = ("send")
        /\
        bad = (TRUE)
        /\
        cpc = ("recv")
        /\
        drained = (FALSE)
        /\
        slot = ((0 :> 4 @@ 1 :> 5 @@ 2 :> 2 @@ 3 :> 3))
        /\
        chan = (<<2, 3, 4>>)
        /\
        pn = (5)
    )
----

_init ==
    /\ slot = _TETrace[1].slot
    /\ ppc = _TETrace[1].ppc
    /\ bad = _TETrace[1].bad
    /\ cur = _TETrace[1].cur
    /\ pn = _TETrace[1].pn
    /\ cpc = _TETrace[1].cpc
    /\ wg = _TETrace[1].wg
    /\ drained = _TETrace[1].drained
    /\ chan = _TETrace[1].chan
----

_next ==
    /\ \E i,j \in DOMAIN _TETrace:
        /\ \/ /\ j = i + 1
              /\ i = TLCGet("level")
        /\ slot  = _TETrace[i].slot
        /\ slot' = _TETrace[j].slot
        /\ ppc  = _TETrace[i].ppc
        /\ ppc' = _TETrace[j].ppc
        /\ bad  = _TETrace[i].bad
        /\ bad' = _TETrace[j].bad
        /\ cur  = _TETrace[i].cur
        /\ cur' = _TETrace[j].cur
        /\ pn  = _TETrace[i].pn
        /\ pn' = _TETrace[j].pn
        /\ cpc  = _TETrace[i].cpc
        /\ cpc' = _TETrace[j].cpc
        /\ wg  = _TETrace[i].wg
        /\ wg' = _TETrace[j].wg
        /\ drained  = _TETrace[i].drained
        /\ drained' = _TETrace[j].drained
        /\ chan  = _TETrace[i].chan
        /\ chan' = _TETrace[j].chan

\* Uncomment the ASSUME below to write the states of the error trace
\* to the given file in Json format. Note that you can pass any tuple
\* to `JsonSerialize`. For example, a sub-sequence of _TETrace.
    \* ASSUME
    \*     LET J == INSTANCE Json
    \*         IN J!JsonSerialize("RingPipeline_TTrace_1791156857.json", _TETrace)

=============================================================================

 Note that you can extract this module `RingPipeline_TEExpression`
  to a dedicated file to reuse `expression` (the module in the 
  dedicated `RingPipeline_TEExpression.tla` file takes precedence 
  over the module `RingPipeline_TEExpression` below).

---- MODULE RingPipeline_TEExpression ----
EXTENDS Sequences, TLCExt, Toolbox, Naturals, TLC, RingPipeline

expression == 
    [
        \* To hide variables of the `RingPipeline` spec from the error trace,
        \* remove the variables below.  The trace will be written in the order
        \* of the fields of this record.
        slot |-> slot
        ,ppc |-> ppc
        ,bad |-> bad
        ,cur |-> cur
        ,pn |-> pn
        ,cpc |-> cpc
        ,wg |-> wg
        ,drained |-> drained
        ,chan |-> chan
        
        \* Put additional constant-, state-, and action-level expressions here:
        \* ,_stateNumber |-> _TEPosition
        \* ,_slotUnchanged |-> slot = slot'
        
        \* Format the `slot` variable as Json value.
        \* ,_slotJson |->
        \*     LET J == INSTANCE Json
        \*     IN J!ToJson(slot)
        
        \* Lastly, you may build expressions over arbitrary sets of states by
        \* leveraging the _TETrace operator.  For example, this is how to
        \* count the number of times a spec variable changed up to the current
        \* state in the trace.
        \* ,_slotModCount |->
        \*     LET F[s \in DOMAIN _TETrace] ==
        \*         IF s = 1 THEN 0
        \*         ELSE IF _TETrace[s].slot # _TETrace[s-1].slot
        \*             THEN 1 + F[s-1] ELSE F[s-1]
        \*     IN F[_TEPosition - 1]
    ]

=============================================================================



Parsing and semantic processing can take forever if the trace below is long.
 In this case, it is advised to uncomment the module below to deserialize the
 trace from a generated binary file.

\*
\*---- MODULE RingPipeline_TETrace ----
\*EXTENDS IOUtils, TLC, RingPipeline
\*
\*trace == IODeserialize("RingPipeline_TTrace_1791156857.bin", TRUE)
\*
\*=============================================================================
\*

---- MODULE RingPipeline_TETrace ----
EXTENDS TLC, RingPipeline

trace == 
    <<
    ([wg |-> 1,cur |-> 0,ppc |-> "spawn",bad |-> FALSE,cpc |-> "unborn",drained |-> FALSE,slot |-> (0 :> 0 @@ 1 :> 0 @@ 2 :> 0 @@ 3 :> 0),chan |-> <<>>,pn |-> 1]),
    ([wg |-> 1,cur |-> 0,ppc |-> "acquire",bad |-> FALSE,cpc |-> "recv",drained |-> FALSE,slot |-> (0 :> 0 @@ 1 :> 0 @@ 2 :> 0 @@ 3 :> 0),chan |-> <<>>,pn |-> 1]),
    ([wg |-> 1,cur |-> 0,ppc |-> "send",bad |-> FALSE,cpc |-> "recv",drained |-> FALSE,slot |-> (0 :> 0 @@ 1 :> 1 @@ 2 :> 0 @@ 3 :> 0),chan |-> <<>>,pn |-> 1]),
    ([wg |-> 1,cur |-> 0,ppc |-> "acquire",bad |-> FALSE,cpc |-> "recv",drained |-> FALSE,slot |-> (0 :> 0 @@ 1 :> 1 @@ 2 :> 0 @@ 3 :> 0),chan |-> <<1>>,pn |-> 2]),
    ([wg |-> 1,cur |-> 0,ppc |-> "send",bad |-> FALSE,cpc |-> "recv",drained |-> FALSE,slot |-> (0 :> 0 @@ 1 :> 1 @@ 2 :> 2 @@ 3 :> 0),chan |-> <<1>>,pn |-> 2]),
    ([wg |-> 1,cur |-> 0,ppc |-> "acquire",bad |-> FALSE,cpc |-> "recv",drained |-> FALSE,slot |-> (0 :> 0 @@ 1 :> 1 @@ 2 :> 2 @@ 3 :> 0),chan |-> <<1, 2>>,pn |-> 3]),
    ([wg |-> 1,cur |-> 0,ppc |-> "send",bad |-> FALSE,cpc |-> "recv",drained |-> FALSE,slot |-> (0 :> 0 @@ 1 :> 1 @@ 2 :> 2 @@ 3 :> 3),chan |-> <<1, 2>>,pn |-> 3]),
    ([wg |-> 1,cur |-> 0,ppc |-> "acquire",bad |-> FALSE,cpc |-> "recv",drained |-> FALSE,slot |-> (0 :> 0 @@ 1 :> 1 @@ 2 :> 2 @@ 3 :> 3),chan |-> <<1, 2, 3>>,pn |-> 4]),
    ([wg |-> 1,cur |-> 0,ppc |-> "send",bad |-> FALSE,cpc |-> "recv",drained |-> FALSE,slot |-> (0 :> 4 @@ 1 :> 1 @@ 2 :> 2 @@ 3 :> 3),chan |-> <<1, 2, 3>>,pn |-> 4]),
    ([wg |-> 1,cur |-> 1,ppc |-> "send",bad |-> FALSE,cpc |-> "use",drained |-> FALSE,slot |-> (0 :> 4 @@ 1 :> 1 @@ 2 :> 2 @@ 3 :> 3),chan |-> <<2, 3>>,pn |-> 4]),
    ([wg |-> 1,cur |-> 1,ppc |-> "acquire",bad |-> FALSE,cpc |-> "use",drained |-> FALSE,slot |-> (0 :> 4 @@ 1 :> 1 @@ 2 :> 2 @@ 3 :> 3),chan |-> <<2, 3, 4>>,pn |-> 5]),
    ([wg |-> 1,cur |-> 1,ppc |-> "send",bad |-> FALSE,cpc |-> "use",drained |-> FALSE,slot |-> (0 :> 4 @@ 1 :> 5 @@ 2 :> 2 @@ 3 :> 3),chan |-> <<2, 3, 4>>,pn |-> 5]),
    ([wg |-> 1,cur |-> 1,ppc |-> "send",bad |-> TRUE,cpc |-> "recv",drained |-> FALSE,slot |-> (0 :> 4 @@ 1 :> 5 @@ 2 :> 2 @@ 3 :> 3),chan |-> <<2, 3, 4>>,pn |-> 5])
    >>
----


=============================================================================

---- CONFIG RingPipeline_TTrace_1791156857 ----
CONSTANTS
    S = 4
    C = 3
    N = 14
    FailAt = 0

INVARIANT
    _inv

CHECK_DEADLOCK
    \* CHECK_DEADLOCK off because of PROPERTY or INVARIANT above.
    FALSE

INIT
    _init

NEXT
    _next

CONSTANT
    _TETrace <- _trace

ALIAS
    _expression
=============================================================================
\* Generated on Sun Oct 04 23:34:18 UTC 2026