---------------------------- MODULE RingPipeline ----------------------------
(* Protocol model of the two-stage pipeline of parseMessage (C07, layer B).

   Producer (stage 1, the calling goroutine) fills index buffer n into ring slot n % S and
   sends a reference to it over a FIFO channel of capacity C; after the last buffer it
   sends a terminator, waits for the consumer and returns.  Consumer (stage 2) receives a
   reference, then uses the slot, then receives the next one; on the terminator it signals
   the wait group and exits.  FailAt = k > 0 makes the consumer fail while using buffer k:
   it then only drains the channel until the terminator (the `if !done` loop).

   The granularity is exactly that of the controlled scheduler the implementation runs
   under: one action per step between two scheduling points
   (producer: leave spawn point | acquire+write | send ... | send terminator | wait;
    consumer: start | receive | use ... | signal).                                              *)
EXTENDS Naturals, Sequences, FiniteSets

CONSTANTS S,      \* ring slots
          C,      \* channel capacity
          N,      \* number of index buffers the document needs
          FailAt  \* 0: consumer never fails; k: fails while using buffer k (1-based)

VARIABLES ppc, pn, chan, slot, cpc, cur, drained, bad, wg

vars == <<ppc, pn, chan, slot, cpc, cur, drained, bad, wg>>

Term == 0 \* terminator entry; buffers are numbered 1..N

\* The initial state is the scheduling point right after the consumer goroutine was created.
Init == /\ ppc = "spawned" /\ pn = 1 /\ chan = <<>> /\ slot = [i \in 0..(S-1) |-> 0]
        /\ cpc = "start" /\ cur = 0 /\ drained = FALSE /\ bad = FALSE /\ wg = 1

(* ---------------- producer ---------------- *)
PSpawned == /\ ppc = "spawned" /\ ppc' = "acquire"
            /\ UNCHANGED <<pn, chan, slot, cpc, cur, drained, bad, wg>>

PAcquireWrite == /\ ppc = "acquire" /\ pn <= N
                 /\ slot' = [slot EXCEPT ![pn % S] = pn]
                 /\ ppc' = "send"
                 /\ UNCHANGED <<pn, chan, cpc, cur, drained, bad, wg>>

PSend == /\ ppc = "send" /\ Len(chan) < C
         /\ chan' = Append(chan, pn)
         /\ pn' = pn + 1
         /\ ppc' = IF pn = N THEN "term" ELSE "acquire"
         /\ UNCHANGED <<slot, cpc, cur, drained, bad, wg>>

PTerm == /\ ppc = "term" /\ Len(chan) < C
         /\ chan' = Append(chan, Term)
         /\ ppc' = "wait"
         /\ UNCHANGED <<pn, slot, cpc, cur, drained, bad, wg>>

PWait == /\ ppc = "wait" /\ wg = 0
         /\ ppc' = "done"
         /\ UNCHANGED <<pn, chan, slot, cpc, cur, drained, bad, wg>>

(* ---------------- consumer ---------------- *)
\* from goroutine start to its first scheduling point (the first receive)
CStart == /\ cpc = "start" /\ cpc' = "recv"
          /\ UNCHANGED <<ppc, pn, chan, slot, cur, drained, bad, wg>>

CRecv == /\ cpc = "recv" /\ Len(chan) > 0
         /\ cur' = Head(chan) /\ chan' = Tail(chan)
         /\ cpc' = "use"
         /\ UNCHANGED <<ppc, pn, slot, drained, bad, wg>>

\* second scheduling point: the reference is owned, the slot not yet read
CUse == /\ cpc = "use"
        /\ IF cur = Term
             THEN /\ cpc' = "signal" /\ UNCHANGED <<bad, drained>>
             ELSE IF drained
               THEN /\ cpc' = "recv" /\ UNCHANGED <<bad, drained>>
               ELSE /\ bad' = (bad \/ slot[cur % S] # cur)
                    /\ drained' = (FailAt > 0 /\ cur = FailAt)
                    /\ cpc' = "recv"
        /\ UNCHANGED <<ppc, pn, chan, slot, cur, wg>>

CSignal == /\ cpc = "signal" /\ wg' = 0 /\ cpc' = "done"
           /\ UNCHANGED <<ppc, pn, chan, slot, cur, drained, bad>>

Next == PSpawned \/ CStart \/ PAcquireWrite \/ PSend \/ PTerm \/ PWait \/ CRecv \/ CUse \/ CSignal

Spec == Init /\ [][Next]_vars /\ WF_vars(Next)

(* ---------------- properties ---------------- *)
NoOverwriteBeforeConsumed == ~bad
HoldsAtMostOne == Len(chan) <= C
Finished == ppc = "done" /\ cpc = "done" /\ chan = <<>>
BothTerminate == <>Finished
NoDeadlock == Finished \/ ENABLED Next
=============================================================================
